#!/bin/bash
# usage: tools/run_all.sh [tier] [props...]   runs the registered checks sequentially, prints one line each
cd /verif
TIER=${1:-quick}; shift
PROPS=${@:-C01 C02 C03 C04 C05 C06 C07 C08 C09 C10 C11 C12 C13 C14 C15 C16 C17 C18 C19 C20}
for p in $PROPS; do
  s=$(date +%s)
  out=$(python3 run.py --prop $p --tier $TIER 2>&1)
  rc=$?
  echo "$p rc=$rc $(( $(date +%s) - s ))s :: $(echo "$out" | grep "^\[$p" | tail -1) :: viol=$(echo "$out" | grep -c '^VIOLATION') known=$(echo "$out" | grep -c '^KNOWN-FINDING') harness=$(echo "$out" | grep -c 'HARNESS-ERROR')"
done
