#!/bin/bash
# usage: tools/seedrun.sh <patch> <PROP[:only]>...   evaluates a seeded change in the scratch worktree /tmp/seedtest
# (development aid while long runs use /repo; the recorded procedure applies the patch to /repo itself)
P=$1; shift
[ -d /tmp/seedtest ] || git -C /repo worktree add -q --detach /tmp/seedtest HEAD   # scratch worktree; remove with: git -C /repo worktree remove --force /tmp/seedtest
git -C /tmp/seedtest checkout -q -- . && git -C /tmp/seedtest checkout -q --detach $(git -C /repo rev-parse HEAD) && git -C /tmp/seedtest apply "$P" || { echo "patch does not apply"; exit 2; }
for spec in "$@"; do
  prop=${spec%%:*}; only=${spec#*:}
  echo "--- $(basename $(dirname $P)) vs $prop [$only]"
  if [ "$only" = "$spec" ]; then VERIF_DEV_SRC=/tmp/seedtest/src python3 /verif/run.py --prop $prop --tier quick 2>&1 | grep -v "^  {" | grep -v "^KNOWN\|^\[dev\]" | grep "sig:\|quick\]\|HARNESS" | head -8
  else VERIF_ONLY="$only" VERIF_DEV_SRC=/tmp/seedtest/src python3 /verif/run.py --prop $prop --tier quick 2>&1 | grep -v "^  {" | grep -v "^KNOWN\|^\[dev\]" | grep "sig:\|quick\]\|HARNESS" | head -8; fi
done
git -C /tmp/seedtest checkout -q -- .
