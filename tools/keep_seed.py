#!/usr/bin/env python3
"""keep_seed.py <ID> <slug> <property> <caught_by (comma list or 'none')> <needs...>
Copies a confirmed seeded change from /tmp/mut_<ID>_out into /verif/seeded/<slug>/ with meta.json."""
import json, os, shutil, sys
ID, slug, prop, caught = sys.argv[1:5]
needs = " ".join(sys.argv[5:])
src = f"/tmp/mut_{ID}_out"
dst = f"/verif/seeded/{slug}"
os.makedirs(dst, exist_ok=True)
patch = os.path.join(src, "patch.rebase.diff") if os.path.exists(os.path.join(src, "patch.rebase.diff")) else os.path.join(src, "patch.diff")
shutil.copy(patch, os.path.join(dst, "patch.diff"))
for f in ("demo.py", "notes.md", "confirm.log"):
    if os.path.exists(os.path.join(src, f)):
        shutil.copy(os.path.join(src, f), os.path.join(dst, f))
log = open(os.path.join(src, "confirm.log")).read() if os.path.exists(os.path.join(src, "confirm.log")) else ""
meta = {
    "id": slug,
    "breaks_property": prop,
    "needs_to_manifest": needs,
    "confirmed": {
        "upstream_suite_with_change": [l for l in log.splitlines() if " passed" in l][-1:] or ["see confirm.log"],
        "demo_with_change_exit": [l for l in log.splitlines() if l.startswith("exit=")][:1],
        "demo_without_change_exit": [l for l in log.splitlines() if l.startswith("exit=")][1:2],
        "how": "tools/confirm_seed.sh in a scratch worktree of /repo (demo with PYTHONPATH=<worktree>/src vs /repo/src; full pytest with the change)",
    },
    "caught_by": [] if caught == "none" else caught.split(","),
    "ran": "git -C /repo apply patch.diff; python3 run.py --prop <check> --tier quick; git -C /repo checkout -- .",
}
json.dump(meta, open(os.path.join(dst, "meta.json"), "w"), indent=1)
print("kept", dst)
