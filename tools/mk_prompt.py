#!/usr/bin/env python3
import json, sys
props={json.loads(l)['id']:json.loads(l) for l in open('/verif/properties.jsonl')}
TEMPLATE='''You are helping to evaluate a verification tool by producing a realistic, subtle bug ("seeded change") in a Python library.

Library: femtomc/genjax (a JAX-based probabilistic programming language). You have your OWN scratch git worktree of it at {wt} — work ONLY there and in {out} (never touch /repo, never look at or touch /verif, never touch other /tmp/mut_* directories). A pristine, never-modified copy of the same commit is at /tmp/genjax_base (read-only for you). Run Python as:  cd {wt} && PYTHONPATH={wt}/src /venv/bin/python ...   (PYTHONPATH makes `import genjax` resolve to your worktree; check with `python -c "import genjax; print(genjax.__file__)"`). For the UNCHANGED code use PYTHONPATH=/tmp/genjax_base/src. NEVER use `git stash` (the stash is shared between all worktrees and other agents work concurrently); never commit. The sandbox has no network.

The property that your change must BREAK (and nothing else is given to you):

  id: {pid}
  title: {title}
  statement: {statement}
  quantified over: {quant}
  code anchors (where the behaviour lives): {files}; mechanisms: {mech}

Your task: make a small source change (a few lines, in {wt}/src/genjax/...) that
  1. breaks the property above for SOME inputs/programs/histories, while the code still imports and compiles;
  2. still passes the library's existing test suite:  cd {wt} && PYTHONPATH={wt}/src /venv/bin/python -m pytest -q -p no:cacheprovider --no-cov -x -n 5 tests/   (takes roughly 10-20 minutes; it must end with all tests passing: 289 passed / 1 skipped on the unchanged tree). Iterate first with only the most relevant test files, then run the whole suite once at the end and report its final summary line;
  3. is REALISTIC (the kind of slip a maintainer could make in a refactor: a wrong axis, an off-by-one, a swapped argument, a dropped term, a stale cached value, a wrong precedence in a merge, a condition that is right for scalars but wrong for arrays, a mask-multiply instead of a select ...) and SUBTLE: it must need something specific to manifest — an unusual input or shape, a particular combination of combinators, a multi-step sequence of operations, a particular random outcome, or two cooperating sites that each look fine alone — NOT something ordinary use would expose at once (do not break every call of a function);
  4. comes with a demonstration: a small standalone script {out}/demo.py (run as  PYTHONPATH=<src> /venv/bin/python demo.py ; exit code 0 = property holds, non-zero = violated, printing what it observed) that FAILS with your change and PASSES without it (verify both).

Deliver, in {out}/ :
  - patch.diff   (output of `git -C {wt} diff`)
  - demo.py
  - notes.md     (what the change is, why it is realistic, exactly what it needs in order to manifest, the commands you ran and their outcomes incl. the final pytest summary line with the change and the demo's output with/without the change)
Do not modify tests. When finished, leave the worktree with your change applied. Your final message should summarise the change in 5-10 lines.
'''
for pid in sys.argv[1:]:
    p=props[pid]
    txt=TEMPLATE.format(wt=f'/tmp/mut_{pid}',out=f'/tmp/mut_{pid}_out',pid=pid,title=p['title'],statement=p['statement'],quant=p['quantifier']['text'],files=', '.join(p['anchors']['files']),mech='; '.join(m['name']+' ('+m['where']+')' for m in p['anchors']['mechanism']))
    open(f'/tmp/mut_{pid}_out/PROMPT.txt','w').write(txt)
