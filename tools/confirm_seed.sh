#!/bin/bash
# usage: confirm_seed.sh <ID> [pytest -n workers]
# Confirms a seeded change living in /tmp/mut_<ID> (+ /tmp/mut_<ID>_out): the upstream suite still
# passes with it, the demonstration fails with it and passes without it. Logs to /tmp/mut_<ID>_out/confirm.log
ID=$1; N=${2:-6}
WT=/tmp/mut_$ID; OUT=/tmp/mut_${ID}_out
{
echo "== diff stat"; git -C $WT diff --stat
git -C $WT diff > $OUT/patch.confirmed.diff
echo "== demo WITH change"; (cd $OUT && PYTHONPATH=$WT/src timeout 900 /venv/bin/python demo.py > $OUT/demo_with.log 2>&1; echo "exit=$?")
echo "== demo WITHOUT change (pristine worktree /tmp/genjax_base)"; (cd $OUT && PYTHONPATH=/tmp/genjax_base/src timeout 900 /venv/bin/python demo.py > $OUT/demo_without.log 2>&1; echo "exit=$?")
echo "== upstream suite WITH change"
(cd $WT && PYTHONPATH=$WT/src timeout 3000 /venv/bin/python -m pytest -q -p no:cacheprovider --no-cov -n $N tests/ 2>&1 | tail -5)
echo "== done"
} > $OUT/confirm.log 2>&1
