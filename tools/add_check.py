#!/usr/bin/env python3
"""add_check.py <PID> <design_ref> <text> <level_note> <technique>"""
import json, sys
pid, ref, text, note, tech = sys.argv[1:6]
man=json.load(open('/verif/MANIFEST.json'))
man['checks']=[c for c in man['checks'] if c['property_id']!=pid]+[{"property_id":pid,"quick_cmd":f"python3 run.py --prop {pid} --tier quick","thorough_cmd":f"python3 run.py --prop {pid} --tier thorough","evidence_file":f"/verif/evidence/{pid}.json","replay_cmd_template":f"python3 run.py --prop {pid} --replay {{path}}","engine":"mc",
 "level_claimed":{"category":"model_checking","text":text,"design_ref":ref},"level_note":note,"technique":tech}]
man['checks'].sort(key=lambda c:c['property_id'])
man['not_applicable']=[n for n in man.get('not_applicable',[]) if n['property_id']!=pid]
man['engines'][0]['serves_properties']=sorted(c['property_id'] for c in man['checks'])
json.dump(man,open('/verif/MANIFEST.json','w'),indent=1)
print('manifest now has', len(man['checks']), 'checks;', len(man['not_applicable']), 'not_applicable')
