"""Stateless exploration of the choice tree spanned by the random source's answers.

`explore(run, menu, on_leaf)`:
  run(D)  -> (out, events)   one real execution of the code under test with decision table
                             D = {key bytes: {lane: value}}; undecided lanes get the real draw.
  menu(ev, lane, ctx) -> list of (value, prob, label)  |  INTERVAL
                             finite menu with *reference* probabilities, or INTERVAL for a
                             Uniform(0,1) draw whose effect is piecewise constant (accept
                             thresholds, systematic offsets): the explorer then partitions
                             (0,1) into the maximal intervals of constant behaviour by probing
                             the real code (grid + bisection) and branches once per interval
                             with probability = interval length.
  on_leaf(leaf)              called for every complete execution.

The next choice point is the first (event, lane) in runtime order that is not yet decided;
runtime order is a topological order of data dependence, so that event's parameters are
already fixed by D.  Every node is one real execution.  Nothing is sampled.
"""

from __future__ import annotations

import hashlib
from dataclasses import dataclass, field

import numpy as np

import jax

INTERVAL = "INTERVAL"


class HarnessError(Exception):
    """The harness itself misbehaved (non-determinism, cap, seam). Never a VIOLATION."""


@dataclass
class Leaf:
    D: dict
    prob: float
    out: object
    events: list
    path: list  # [(keyhex, lane, label)]
    depth: int


@dataclass
class Stats:
    nodes: int = 0  # real executions (transitions)
    leaves: int = 0  # complete executions (states)
    max_depth: int = 0
    choice_points: int = 0
    probes: int = 0  # extra executions spent partitioning INTERVAL events
    total_prob: float = 0.0
    capped: bool = False


def _undecided(events):
    for ev in events:
        n = ev.lanes()
        if ev.scripted is None:
            return ev, 0
        m = np.asarray(ev.scripted).reshape(-1)
        for lane in range(n):
            if not m[lane]:
                return ev, lane
    return None


def _with(D, key, lane, value):
    D2 = {k: dict(v) for k, v in D.items()}
    D2.setdefault(key, {})[lane] = value
    return D2


def default_sig(out, events):
    h = hashlib.sha1()
    for leaf in jax.tree_util.tree_leaves(out):
        a = np.asarray(leaf)
        h.update(str(a.dtype).encode())
        h.update(str(a.shape).encode())
        h.update(a.tobytes())
    h.update(str(len(events)).encode())
    return h.hexdigest()


def partition_unit_interval(run, D, key, lane, stats, sig=default_sig, grid=17, tol=2e-7, max_pieces=12, skip_key=None):
    """Maximal sub-intervals of (0,1) on which the behaviour of `run` is constant in the
    scripted value u of (key, lane).  Returns [(lo, hi, representative u)]."""

    def beh(u):
        out, evs = run(_with(D, key, lane, np.float32(u)))
        stats.probes += 1
        # the signature must not see u itself: drop the probed event's own value
        return sig(out, [e for e in evs if e.key != key])

    eps = 1e-6
    us = [eps] + [i / (grid - 1) for i in range(1, grid - 1)] + [1 - eps]
    bs = [beh(u) for u in us]
    cuts = []
    for i in range(len(us) - 1):
        if bs[i] != bs[i + 1]:
            lo, hi, blo = us[i], us[i + 1], bs[i]
            while hi - lo > tol:
                mid = 0.5 * (lo + hi)
                if beh(mid) == blo:
                    lo = mid
                else:
                    hi = mid
            cuts.append(0.5 * (lo + hi))
    if len(cuts) + 1 > max_pieces:
        raise HarnessError(f"INTERVAL event is not piecewise constant ({len(cuts)} cuts)")
    edges = [0.0] + cuts + [1.0]
    pieces = []
    for a, b in zip(edges[:-1], edges[1:]):
        pieces.append((a, b, 0.5 * (a + b)))
    return pieces


def explore(run, menu, on_leaf, *, max_leaves=200_000, sig=default_sig, check_determinism=True):
    stats = Stats()
    if check_determinism:
        o1, e1 = run({})
        o2, e2 = run({})
        if default_sig(o1, e1) != default_sig(o2, e2) or [e.key for e in e1] != [e.key for e in e2]:
            # runtime order of independent callbacks may differ under XLA; compare as sets
            if sorted(e.key for e in e1) != sorted(e.key for e in e2) or default_sig(o1, []) != default_sig(o2, []):
                raise HarnessError("non-deterministic execution under an identical decision table")
    stack = [({}, 1.0, [], 0)]
    while stack:
        D, p, path, depth = stack.pop()
        out, events = run(D)
        stats.nodes += 1
        # replay check: every decided (key, lane) must have been consumed
        seen = {e.key for e in events}
        for k in D:
            if k not in seen:
                raise HarnessError("divergence while replaying a decision prefix: scripted key never drawn")
        nxt = _undecided(events)
        if nxt is None:
            stats.leaves += 1
            stats.max_depth = max(stats.max_depth, depth)
            stats.total_prob += p
            on_leaf(Leaf(D, p, out, events, path, depth))
            if stats.leaves >= max_leaves:
                stats.capped = bool(stack)
                break
            continue
        ev, lane = nxt
        stats.choice_points += 1
        m = menu(ev, lane, {"events": events, "D": D, "out": out})
        if m is INTERVAL or m == INTERVAL:
            pieces = partition_unit_interval(run, D, ev.key, lane, stats, sig=sig)
            m = [(np.float32(u), hi - lo, f"u∈({lo:.6f},{hi:.6f})") for lo, hi, u in pieces]
        if not m:
            raise HarnessError(f"empty menu for event {ev.name}")
        for v, pr, lab in reversed(m):
            if pr <= 0.0:
                continue
            stack.append((_with(D, ev.key, lane, v), p * pr, path + [(ev.key.hex(), lane, lab)], depth + 1))
    return stats


def path_json(leaf: Leaf):
    return [{"key": k, "lane": l, "choice": str(lab)} for k, l, lab in leaf.path]


def D_json(D):
    return {k.hex(): {str(l): np.asarray(v).tolist() for l, v in d.items()} for k, d in D.items()}


def D_from_json(j, dtype_of=None):
    D = {}
    for k, d in j.items():
        D[bytes.fromhex(k)] = {int(l): np.asarray(v) for l, v in d.items()}
    return D
