"""Reference interpreter for mc/lang.py programs: NumPy / float64 / scipy, no genjax code.

run(prog, args, choices) evaluates the joint log density, the return value and the list of
element-level random choices ("sites") with their parameters given the values they depend on.
"""

from __future__ import annotations

import itertools
import math
from dataclasses import dataclass, field

import numpy as np
from scipy import stats
from scipy.special import logsumexp

from mc import lang as L


# ---------------------------------------------------------------- distributions


@dataclass
class Dist:
    key: str
    event_name: str  # name seen at the sampler seam
    discrete: bool
    event_ndims: int = 0
    param_event_ndims: tuple = ()  # event dims of each positional parameter

    def gj(self):
        import genjax

        return _GJ[self.key]()

    def logpdf(self, value, *params):
        raise NotImplementedError

    def menu(self, *params):
        """[(value, prob)] : full support with reference probabilities (discrete) or a
        fixed grid with equal bookkeeping weights (continuous)."""
        raise NotImplementedError


class _Flip(Dist):
    def logpdf(self, v, p):
        p = np.asarray(p, np.float64)
        return np.where(np.asarray(v, bool), np.log(p), np.log1p(-p))

    def menu(self, p):
        p = float(p)
        return [(np.bool_(False), 1 - p), (np.bool_(True), p)]


class _Categorical(Dist):
    def logpdf(self, v, logits):
        logits = np.asarray(logits, np.float64)
        ln = logits - logsumexp(logits, axis=-1, keepdims=True)
        v = np.asarray(v, np.int64)
        return np.take_along_axis(np.broadcast_to(ln, v.shape + ln.shape[-1:]), v[..., None], axis=-1)[..., 0]

    def menu(self, logits):
        logits = np.asarray(logits, np.float64)
        p = np.exp(logits - logsumexp(logits))
        return [(np.int32(k), float(p[k])) for k in range(len(p))]


class _Normal(Dist):
    GRID = (-0.7, 0.4, 1.3)

    def logpdf(self, v, mu, sigma):
        return stats.norm.logpdf(np.asarray(v, np.float64), np.asarray(mu, np.float64), np.asarray(sigma, np.float64))

    def menu(self, mu, sigma):
        return [(np.float32(g), 1.0 / len(self.GRID)) for g in self.GRID]


class _MyNormal(_Normal):
    """user-wrapped: tfp_distribution(lambda mu: tfd.Normal(mu, 2.0))"""

    def logpdf(self, v, mu):
        return stats.norm.logpdf(np.asarray(v, np.float64), np.asarray(mu, np.float64), 2.0)

    def menu(self, mu):
        return [(np.float32(g), 1.0 / len(self.GRID)) for g in self.GRID]


class _Exponential(Dist):
    GRID = (0.2, 1.5)

    def logpdf(self, v, rate):
        rate = np.asarray(rate, np.float64)
        return np.log(rate) - rate * np.asarray(v, np.float64)

    def menu(self, rate):
        return [(np.float32(g), 1.0 / len(self.GRID)) for g in self.GRID]


class _Uniform(Dist):
    GRID = (0.25, 0.75)

    def logpdf(self, v, lo, hi):
        v = np.asarray(v, np.float64)
        lo = np.asarray(lo, np.float64)
        hi = np.asarray(hi, np.float64)
        with np.errstate(divide="ignore"):
            return np.where((v >= lo) & (v <= hi), -np.log(hi - lo), -np.inf)

    def menu(self, lo, hi):
        lo, hi = float(lo), float(hi)
        return [(np.float32(lo + g * (hi - lo)), 1.0 / len(self.GRID)) for g in self.GRID]


class _MVN(Dist):
    GRID = ((0.1, -0.3), (1.0, 0.8))

    def logpdf(self, v, mean, cov):
        v = np.asarray(v, np.float64)
        mean = np.broadcast_to(np.asarray(mean, np.float64), v.shape)
        cov = np.asarray(cov, np.float64)
        cov = np.broadcast_to(cov, v.shape[:-1] + cov.shape[-2:])
        out = np.empty(v.shape[:-1])
        for idx in np.ndindex(*v.shape[:-1]):
            out[idx] = stats.multivariate_normal.logpdf(v[idx], mean[idx], cov[idx])
        return out

    def menu(self, mean, cov):
        return [(np.asarray(g, np.float32), 1.0 / len(self.GRID)) for g in self.GRID]


DISTS = {
    "flip": _Flip("flip", "Flip", True, 0, (0,)),
    "categorical": _Categorical("categorical", "Categorical", True, 0, (1,)),
    "normal": _Normal("normal", "Normal", False, 0, (0, 0)),
    "exponential": _Exponential("exponential", "Exponential", False, 0, (0,)),
    "mvn": _MVN("mvn", "MultivariateNormal", False, 1, (1, 2)),
    "mynormal": _MyNormal("mynormal", "MyNormal", False, 0, (0,)),
    "uniform": _Uniform("uniform", "Uniform", False, 0, (0, 0)),
}
BY_EVENT_NAME = {d.event_name: d for d in DISTS.values()}


def _gj_mynormal():
    import genjax
    from genjax.core import tfp_distribution
    from tensorflow_probability.substrates import jax as tfp

    global _MYNORMAL
    try:
        return _MYNORMAL
    except NameError:
        _MYNORMAL = tfp_distribution(lambda mu: tfp.distributions.Normal(mu, 2.0), name="MyNormal")
        return _MYNORMAL


def _gj(name):
    def f():
        import genjax

        return getattr(genjax, name)

    return f


_GJ = {
    "flip": _gj("flip"),
    "categorical": _gj("categorical"),
    "normal": _gj("normal"),
    "exponential": _gj("exponential"),
    "mvn": _gj("multivariate_normal"),
    "mynormal": _gj_mynormal,
    "uniform": _gj("uniform"),
}


# ---------------------------------------------------------------- interpreter


@dataclass
class SiteRec:
    path: tuple  # address path (no lane / step indices)
    index: tuple  # lane / step indices, outermost first
    dist: str
    params: tuple  # numpy, element-level
    value: object  # numpy, element-level
    logp: float


@dataclass
class RefOut:
    logp: float
    retval: object
    sites: list
    optional: list = field(default_factory=list)  # hidden Cond-branch draws (may or may not be drawn)
    preds: list = field(default_factory=list)  # (path, index, bool) of every Cond predicate evaluated


def tree_index(x, i):
    if isinstance(x, dict):
        return {k: tree_index(v, i) for k, v in x.items()}
    if isinstance(x, (tuple, list)):
        return type(x)(tree_index(v, i) for v in x)
    return np.asarray(x)[i]


def tree_stack(xs):
    x0 = xs[0]
    if isinstance(x0, dict):
        return {k: tree_stack([x[k] for x in xs]) for k in x0}
    if isinstance(x0, (tuple, list)):
        return type(x0)(tree_stack([x[j] for x in xs]) for j in range(len(x0)))
    return np.stack([np.asarray(x) for x in xs])


def _axis_slice(a, axis, i):
    if axis is None:
        return a
    if isinstance(a, dict):
        return {k: _axis_slice(v, axis, i) for k, v in a.items()}
    if isinstance(a, (tuple, list)):
        return type(a)(_axis_slice(v, axis, i) for v in a)
    return np.take(np.asarray(a), i, axis=axis)


def _axis_len(a, axis):
    if isinstance(a, dict):
        return _axis_len(next(iter(a.values())), axis)
    if isinstance(a, (tuple, list)):
        return _axis_len(a[0], axis)
    return np.asarray(a).shape[axis]


def _site_elements(d: Dist, value, params, path, index):
    """Split a (possibly vector-parameterised) site into element-level records."""
    value = np.asarray(value)
    lane_shape = value.shape[: value.ndim - d.event_ndims] if d.event_ndims else value.shape
    lp = np.broadcast_to(np.asarray(d.logpdf(value, *params), np.float64), lane_shape)
    recs = []
    bparams = []
    for p, pe in zip(params, d.param_event_ndims):
        p = np.asarray(p)
        ev_shape = p.shape[p.ndim - pe :] if pe else ()
        bparams.append(np.broadcast_to(p, lane_shape + ev_shape))
    for idx in np.ndindex(*lane_shape):
        recs.append(SiteRec(path, index + idx, d.key, tuple(bp[idx] for bp in bparams), value[idx], float(lp[idx])))
    return recs, float(np.sum(lp))


def run(prog: L.Prog, args, choices, kwargs=None, path=(), index=()) -> RefOut:
    v = dict(zip(prog.params, args))
    if kwargs:
        v.update(kwargs)
    total = 0.0
    sites = []
    optional = []
    preds = []
    for st in prog.body:
        p = path + (st.addr,)
        if isinstance(st, L.Site):
            d = DISTS[st.dist]
            params = [L.evaluate(e, np, v) for e in st.args] + [L.evaluate(e, np, v) for _n, e in st.kwargs]
            val = np.asarray(choices[st.addr])
            recs, lp = _site_elements(d, val, params, p, index)
            sites += recs
            total += lp
            v[st.addr] = val
        elif isinstance(st, L.Call):
            a = [L.evaluate(e, np, v) for e in st.args]
            k = {n: L.evaluate(e, np, v) for n, e in st.kwargs}
            sub = run(st.prog, a, choices[st.addr], k, p, index)
            sites += sub.sites
            optional += sub.optional
            preds += sub.preds
            total += sub.logp
            v[st.addr] = sub.retval
        elif isinstance(st, L.VmapCall):
            a = [L.evaluate(e, np, v) for e in st.args]
            axes = st.in_axes
            if axes is None or isinstance(axes, int):
                axes = (axes,) * len(a)
            n = st.axis_size
            if n is None:
                n = next(_axis_len(x, ax) for x, ax in zip(a, axes) if ax is not None)
            rets = []
            for i in range(n):
                ai = [_axis_slice(x, ax, i) for x, ax in zip(a, axes)]
                ci = tree_index(choices[st.addr], i)
                if isinstance(st.callee, str):
                    d = DISTS[st.callee]
                    recs, lp = _site_elements(d, ci, ai, p, index + (i,))
                    sites += recs
                    total += lp
                    rets.append(np.asarray(ci))
                else:
                    sub = run(st.callee, ai, ci, {n_: L.evaluate(e_, np, v) for n_, e_ in st.kwargs} or None, p, index + (i,))
                    sites += sub.sites
                    optional += sub.optional
                    preds += sub.preds
                    total += sub.logp
                    rets.append(sub.retval)
            v[st.addr] = tree_stack(rets)
        elif isinstance(st, L.ScanCall):
            carry = L.evaluate(st.init, np, v)
            xs = L.evaluate(st.xs, np, v)
            outs = []
            for t in range(st.length):
                xt = None if xs is None else tree_index(xs, t)
                sub = run(st.prog, [carry, xt], tree_index(choices[st.addr], t), {n_: L.evaluate(e_, np, v) for n_, e_ in st.kwargs} or None, p, index + (t,))
                sites += sub.sites
                optional += sub.optional
                preds += sub.preds
                total += sub.logp
                carry, out = sub.retval
                outs.append(out)
            v[st.addr] = (carry, tree_stack(outs) if outs and outs[0] is not None else None)
        elif isinstance(st, L.CondCall):
            pred = bool(np.asarray(L.evaluate(st.pred, np, v)))
            a = [L.evaluate(e, np, v) for e in st.args]
            preds.append((p, index, pred))
            sub = run(st.pt if pred else st.pf, a, choices[st.addr], None, p, index)
            sites += sub.sites
            optional += sub.optional
            preds += sub.preds
            total += sub.logp
            # the branch not taken is evaluated by genjax as well; its draws never reach an
            # observable.  Parameters of its sites are computed with the visible values as
            # stand-ins (branches share addresses; the family keeps hidden-site parameters
            # functions of the arguments only).
            try:
                hid = run(st.pf if pred else st.pt, a, choices[st.addr], None, p, index)
                optional += hid.sites + hid.optional
            except Exception:
                pass
            v[st.addr] = sub.retval
        else:
            raise TypeError(st)
    return RefOut(total, L.evaluate(prog.ret, np, v), sites, optional, preds)


def leaf_paths(prog: L.Prog, path=()):
    """Static set of leaf address paths (Cond branches share their addresses)."""
    out = []
    for st in prog.body:
        p = path + (st.addr,)
        if isinstance(st, L.Site):
            out.append(p)
        elif isinstance(st, L.Call):
            out += leaf_paths(st.prog, p)
        elif isinstance(st, L.VmapCall):
            out += [p] if isinstance(st.callee, str) else leaf_paths(st.callee, p)
        elif isinstance(st, L.ScanCall):
            out += leaf_paths(st.prog, p)
        elif isinstance(st, L.CondCall):
            a, b = leaf_paths(st.pt, p), leaf_paths(st.pf, p)
            out += a + [q for q in b if q not in a]
    return out


def path_logp(out: RefOut):
    """Per leaf path: the sum of the element log densities at that path (all lanes/steps)."""
    d = {}
    for s in out.sites:
        d[s.path] = d.get(s.path, 0.0) + s.logp
    return d


def get_path(choices, path):
    cur = choices
    for k in path:
        cur = cur[k]
    return cur


def set_path(choices, path, value):
    cur = choices
    for k in path[:-1]:
        cur = cur.setdefault(k, {})
    cur[path[-1]] = value
    return choices


def flatten(choices, prefix=()):
    out = {}
    if choices is None:
        return out
    for k, v in choices.items():
        if isinstance(v, dict):
            out.update(flatten(v, prefix + (k,)))
        else:
            out[prefix + (k,)] = v
    return out


def unflatten(flat):
    out = {}
    for p, v in flat.items():
        set_path(out, p, v)
    return out


def to_numpy(tree):
    import jax

    return jax.tree_util.tree_map(lambda x: np.asarray(x), tree)


# ---------------------------------------------------------------- element events at the seam


def element_events(events):
    """Flatten recorded sampler events to (event_name, element params, element value)."""
    out = []
    for ev in events:
        d = BY_EVENT_NAME.get(ev.name)
        if d is None:
            out.append((ev.name, tuple(np.asarray(a) for a in ev.args), np.asarray(ev.value)))
            continue
        value = np.asarray(ev.value)
        lane_shape = value.shape[: value.ndim - d.event_ndims] if d.event_ndims else value.shape
        params = list(ev.args) + [ev.kwargs[k] for k in sorted(ev.kwargs)]
        bparams = []
        ok = True
        for p, pe in zip(params, d.param_event_ndims):
            p = np.asarray(p)
            ev_shape = p.shape[p.ndim - pe :] if pe else ()
            try:
                bparams.append(np.broadcast_to(p, lane_shape + ev_shape))
            except ValueError:
                ok = False
        if not ok:
            out.append((ev.name, tuple(np.asarray(a) for a in params), value))
            continue
        for idx in np.ndindex(*lane_shape):
            out.append((ev.name, tuple(bp[idx] for bp in bparams), value[idx]))
    return out


def match_events(real, expected, close):
    """Greedy one-to-one matching of real element events against expected SiteRecs.
    Returns (unmatched_real, unmatched_expected)."""
    real = list(real)
    missing = []
    for s in expected:
        name = DISTS[s.dist].event_name
        hit = None
        for j, (n, ps, val) in enumerate(real):
            if n != name or len(ps) != len(s.params):
                continue
            if not close(val, s.value):
                continue
            if all(np.shape(a) == np.shape(b) and close(a, b) for a, b in zip(ps, s.params)):
                hit = j
                break
        if hit is None:
            missing.append(s)
        else:
            real.pop(hit)
    return real, missing
