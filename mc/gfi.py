"""Helpers shared by the GFI checks (C01-C05, C08-C10): menus from the reference, trace
observation, coherence oracle."""

from __future__ import annotations

import numpy as np

from mc import harness as H
from mc import lang as L
from mc import ref as R
from mc.env import EVENT_NDIMS


def lane_params(ev, lane):
    """Element-level parameters of lane `lane` of a recorded sampler event."""
    d = R.BY_EVENT_NAME.get(ev.name)
    value = np.asarray(ev.value)
    nd = EVENT_NDIMS.get(ev.name or "", 0)
    lane_shape = value.shape[: value.ndim - nd] if nd else value.shape
    params = list(ev.args) + [ev.kwargs[k] for k in sorted(ev.kwargs)]
    if d is None:
        return params
    idx = np.unravel_index(lane, lane_shape) if lane_shape else ()
    out = []
    for p, pe in zip(params, d.param_event_ndims):
        p = np.asarray(p)
        ev_shape = p.shape[p.ndim - pe :] if pe else ()
        out.append(np.broadcast_to(p, lane_shape + ev_shape)[idx])
    return out


def std_menu(ev, lane, ctx=None):
    """Menu of a model-site event: reference support/pmf (discrete) or grid (continuous),
    computed from the parameters genjax actually passed to the sampler."""
    d = R.BY_EVENT_NAME.get(ev.name)
    if d is None:
        # a sampler the reference does not know: keep its real draw as the only branch; the leaf
        # oracle (check_events) then reports the unexpected site instead of the harness failing
        v = np.asarray(ev.real)
        nd = EVENT_NDIMS.get(ev.name or "", 0)
        lane_shape = v.shape[: v.ndim - nd] if nd else v.shape
        val = v.reshape((-1,) + v.shape[len(lane_shape):])[lane] if lane_shape else v
        return [(val, 1.0, f"unknown sampler {ev.name}")]
    ps = lane_params(ev, lane)
    return [(v, p, repr(np.asarray(v).tolist())) for v, p in d.menu(*ps)]


def np_choices(tr):
    return R.to_numpy(tr.get_choices())


def split_args(stored):
    """Traces store (args, kwargs)."""
    if isinstance(stored, tuple) and len(stored) == 2 and isinstance(stored[1], dict):
        return stored[0], stored[1]
    return stored, {}


def outcome_key(flat_choices):
    return tuple((p, np.asarray(v).tobytes()) for p, v in sorted(flat_choices.items()))


def tree_close(a, b, **kw):
    import jax

    la = jax.tree_util.tree_leaves(a)
    lb = jax.tree_util.tree_leaves(b)
    if len(la) != len(lb):
        return False
    return all(np.shape(x) == np.shape(y) and H.close(x, y, **kw) for x, y in zip(la, lb))


def tree_bits_equal(a, b):
    import jax

    la = jax.tree_util.tree_leaves(a)
    lb = jax.tree_util.tree_leaves(b)
    return len(la) == len(lb) and all(H.bits_equal(x, y) for x, y in zip(la, lb))


def check_coherent(res, prop, tag, pname, prog, args, kwargs, tr, *, detail=None):
    """score == -ref.logp(choices; args), retval == ref.retval, stored args == args.
    Returns the RefOut (or None if the reference could not evaluate the choices)."""
    choices = np_choices(tr)
    detail = dict(detail or {})
    detail.update(program=pname, args=args, kwargs=kwargs, choices=R.flatten(choices))
    try:
        ro = R.run(prog, args, choices, kwargs)
    except Exception as ex:
        res.violate(prop, f"{tag}-choices-malformed:{pname}", error=f"{type(ex).__name__}: {ex}", **detail)
        return None
    score = float(np.asarray(tr.get_score()))
    if not H.close(score, -ro.logp):
        res.violate(prop, f"{tag}-score:{pname}", score=score, reference_neg_logp=-ro.logp, **detail)
    rv = R.to_numpy(tr.get_retval())
    if not tree_close(rv, ro.retval):
        res.violate(prop, f"{tag}-retval:{pname}", retval=rv, reference=ro.retval, **detail)
    sa, sk = split_args(tr.get_args())
    if not (tree_close(sa, tuple(args), rtol=0, atol=0) and tree_close(sk, dict(kwargs or {}), rtol=0, atol=0)):
        res.violate(prop, f"{tag}-stored-args:{pname}", stored=R.to_numpy((sa, sk)), **detail)
    return ro


def check_events(res, prop, tag, pname, events, expected_sites, optional_sites, detail=None):
    """Every sampler event must be a draw the reference expects (right distribution, right
    parameters given the parents, exactly once); Cond's hidden-branch draws are optional."""
    real = R.element_events(events)
    extra, missing = R.match_events(real, expected_sites, H.close)
    # extras may only be hidden-branch draws (matched on distribution + parameters)
    left = []
    opt = list(optional_sites)
    for n, ps, val in extra:
        hit = None
        for j, s in enumerate(opt):
            if R.DISTS[s.dist].event_name == n and len(ps) == len(s.params) and all(np.shape(a) == np.shape(b) and H.close(a, b) for a, b in zip(ps, s.params)):
                hit = j
                break
        if hit is None:
            left.append((n, ps, val))
        else:
            opt.pop(hit)
    # a hidden site whose parameters depend on OTHER hidden draws cannot be predicted from the visible
    # choices: such leftovers are accepted by distribution name, at most once per hidden site
    still = []
    for n, ps, val in left:
        hit = None
        for j, s in enumerate(opt):
            if R.DISTS[s.dist].event_name == n:
                hit = j
                break
        if hit is None:
            still.append((n, ps, val))
        else:
            opt.pop(hit)
    left = still
    if missing or left:
        res.violate(
            prop,
            f"{tag}-events:{pname}",
            missing=[{"path": s.path, "index": s.index, "dist": s.dist, "params": s.params, "value": s.value} for s in missing[:4]],
            unexpected=[{"name": n, "params": ps, "value": v} for n, ps, v in left[:4]],
            **(detail or {}),
        )
        return False
    return True


def corner_traces(fn, key, jargs, picks=(0, -1), res=None):
    """Traces of `fn` reached by scripted simulate taking menu entry `pick` at every site
    (pick may be an int, or 'alt' = alternate 0/-1 along the run): complete, coherent traces
    whose hidden Cond-branch values are real hidden draws."""
    import jax
    from genjax import seed as gseed
    from mc import env
    from mc.tree import _undecided, _with

    sim = jax.jit(gseed(fn.simulate))
    out = []
    for pick in picks:
        D = {}
        n = 0
        for _ in range(400):
            tr, evs = env.run_recorded(sim, key, *jargs, mode="script", decisions=D)
            if res is not None:
                res.evaluations += 1
            nxt = _undecided(evs)
            if nxt is None:
                break
            ev, lane = nxt
            m = std_menu(ev, lane)
            idx = (0 if n % 2 == 0 else -1) if pick == "alt" else pick
            D = _with(D, ev.key, lane, m[idx % len(m)][0])
            n += 1
        c = R.to_numpy(tr.get_choices())
        if not any(tree_bits_equal(c, R.to_numpy(t.get_choices())) for t in out):
            out.append(tr)
    return out


# ---------------------------------------------------------------- combinators as ROOT generative functions


def root_combinators():
    """Scan / Vmap / Cond objects used directly as the generative function that is edited (not as a
    sub-call of an @gen function): name -> (gf, wrapper Prog for the reference, address of the call in
    the wrapper, old args, [new args, ...]).  The wrapper's choices are {addr: <root choices>}."""
    from genjax import Scan, Cond, const
    from mc import family as F
    from mc import lang as L
    from mc.lang import Prog, ScanCall, VmapCall, CondCall

    f32 = np.float32
    out = {}
    step = F.step_c
    out["root_scan"] = (
        Scan(L.compile_prog(step), length=const(2)),
        Prog("root_scan", ("a", "xs"), (ScanCall("s", step, 2, "a", "xs"),), "s"),
        "s",
        (f32(0.3), F.A(0.5, -0.4)),
        [(f32(0.3), F.A(0.5, -0.4)), (f32(-1.2), F.A(0.5, -0.4)), (f32(0.3), F.A(1.1, 0.1))],
    )
    out["root_vmap"] = (
        L.compile_prog(F.chain).vmap(in_axes=(0,)),
        Prog("root_vmap", ("av",), (VmapCall("v", F.chain, (0,), None, ("av",)),), "v"),
        "v",
        (F.A(0.1, 0.7),),
        [(F.A(0.1, 0.7),), (F.A(0.5, -0.4),)],
    )
    out["root_cond"] = (
        Cond(L.compile_prog(F.br_t), L.compile_prog(F.br_f)),
        Prog("root_cond", ("flag", "a"), (CondCall("c", F.br_t, F.br_f, "flag", ("a",)),), "c"),
        "c",
        (np.bool_(True), f32(0.3)),
        [(np.bool_(True), f32(0.3)), (np.bool_(True), f32(-1.2))],
    )
    return out


def check_root_edits(res, prop, op, seed=0):
    """For every root combinator, every selection (regenerate) / constraint set (update) over its leaves
    and every (old args -> new args) pair: the edited trace records the NEW arguments and is coherent
    under them (score = -reference log density of its choices, return value = the reference's)."""
    import itertools
    import jax
    import jax.numpy as jnp
    from genjax import seed as gseed, sel
    from genjax.core import handler_stack

    key = jax.random.key(1234 + seed)
    for name, (gf, wrapper, addr, old_args, news) in root_combinators().items():
        jold = tuple(jnp.asarray(a) for a in old_args)
        try:
            tr0 = gseed(gf.simulate)(key, *jold)
        except Exception as ex:
            handler_stack.clear()
            res.violate(prop, f"root-simulate-raises:{name}", error=f"{type(ex).__name__}: {str(ex)[:300]}")
            continue
        res.evaluations += 1
        leaves = [p[1:] for p in R.leaf_paths(wrapper)]
        subsets = [c for k in range(len(leaves) + 1) for c in itertools.combinations(leaves, k)]
        old_flat = R.flatten(np_choices(tr0))
        for new_args in news:
            jnew = tuple(jnp.asarray(a) for a in new_args)
            for S in subsets:
                sigS = "+".join("/".join(p) for p in S) or "{}"
                det = dict(root=name, operation=op, old_args=old_args, new_args=new_args, selected_or_constrained=[list(p) for p in S])
                res.transitions += 1
                try:
                    if op == "regenerate":
                        s = sel()
                        for p in S:
                            s = s | (sel(p[0]) if len(p) == 1 else sel(tuple(p)))
                        new_tr, _w, _d = gseed(lambda t, *a: gf.regenerate(t, s, *a))(key, tr0, *jnew)
                    else:
                        cons = R.unflatten({p: np.asarray(old_flat[p]) * 0 + np.asarray(0.25, np.asarray(old_flat[p]).dtype) for p in S}) if S else {}
                        new_tr, _w, _d = gf.update(tr0, jax.tree_util.tree_map(jnp.asarray, cons), *jnew)
                except Exception as ex:
                    handler_stack.clear()
                    res.violate(prop, f"root-{op}-raises:{name}:{sigS}", error=f"{type(ex).__name__}: {str(ex)[:300]}", **det)
                    continue
                res.evaluations += 1
                res.states += 1
                res.validated += 1
                ch = {addr: np_choices(new_tr)}
                try:
                    ro = R.run(wrapper, new_args, ch)
                except Exception as ex:
                    res.violate(prop, f"root-{op}-choices-malformed:{name}:{sigS}", error=str(ex)[:200], **det)
                    continue
                sc = float(np.asarray(new_tr.get_score()))
                if not H.close(sc, -ro.logp):
                    res.violate(prop, f"root-{op}-score:{name}:{sigS}", score=sc, reference_neg_logp=-ro.logp, **det)
                if not tree_close(R.to_numpy(new_tr.get_retval()), ro.retval):
                    res.violate(prop, f"root-{op}-retval:{name}:{sigS}", retval=R.to_numpy(new_tr.get_retval()), reference=ro.retval, **det)
                sa, sk = split_args(new_tr.get_args())
                if not (tree_close(R.to_numpy(sa), tuple(new_args), rtol=0, atol=0) and not sk):
                    res.violate(prop, f"root-{op}-stored-args:{name}:{sigS}", stored=R.to_numpy(sa), **det)
                res.case("root", name, op, sigS, str(new_args))
                if not S and new_args is news[-1]:
                    res.add_sample(dict(det, score=sc, reference_neg_logp=-ro.logp))
