"""Reference denotation of selection expressions: a set of address paths.

Expressions are plain tuples (independent of genjax):
  ('none',) ('all',) ('str', a) ('tup', (a, b, ...)) ('dict', ((k, expr), ...))
  ('or', e1, e2) ('and', e1, e2) ('not', e)
`den(e, path)` decides membership of a *full* address path by structural recursion on the
expression; it never looks at genjax's `match`.
"""

from __future__ import annotations

import itertools


def den(e, path) -> bool:
    t = e[0]
    if t == "none":
        return False
    if t == "all":
        return True
    if t == "str":
        return len(path) >= 1 and path[0] == e[1]
    if t == "tup":
        tp = e[1]
        # sel(()) is 'all'; a non-empty tuple selects exactly the sub-tree tp[0]/tp[1]/...
        return len(tp) >= 1 and len(path) >= len(tp) and tuple(path[: len(tp)]) == tuple(tp)
    if t == "dict":
        d = dict(e[1])
        return len(path) >= 1 and path[0] in d and den(d[path[0]], path[1:])
    if t == "or":
        return den(e[1], path) or den(e[2], path)
    if t == "and":
        return den(e[1], path) and den(e[2], path)
    if t == "not":
        return not den(e[1], path)
    raise ValueError(e)


def build(e):
    """The real genjax selection for expression e."""
    from genjax.core import sel

    t = e[0]
    if t == "none":
        return sel()
    if t == "all":
        return sel(())
    if t == "str":
        return sel(e[1])
    if t == "tup":
        return sel(tuple(e[1]))
    if t == "dict":
        return sel({k: build(v) for k, v in e[1]})
    if t == "or":
        return build(e[1]) | build(e[2])
    if t == "and":
        return build(e[1]) ^ build(e[2])
    if t == "not":
        return ~build(e[1])
    raise ValueError(e)


def show(e) -> str:
    t = e[0]
    if t == "none":
        return "sel()"
    if t == "all":
        return "sel(())"
    if t == "str":
        return f'sel("{e[1]}")'
    if t == "tup":
        return "sel((" + ",".join(f'"{x}"' for x in e[1]) + ("," if len(e[1]) == 1 else "") + "))"
    if t == "dict":
        return "sel({" + ", ".join(f'"{k}": {show(v)}' for k, v in e[1]) + "})"
    if t == "or":
        return f"({show(e[1])} | {show(e[2])})"
    if t == "and":
        return f"({show(e[1])} ^ {show(e[2])})"
    if t == "not":
        return f"~{show(e[1])}"
    raise ValueError(e)


def impl_member(s, path) -> bool:
    """Membership through the real match chain, with the leaf decision `() in remainder`
    exactly as Distribution.regenerate takes it."""
    cur = s
    for a in path:
        _hit, cur = cur.match(a)
    return () in cur


def all_paths(alphabet=("a", "b", "c"), depth=3, foreign="z"):
    ps = [()]
    for d in range(1, depth + 1):
        ps.extend(itertools.product(alphabet, repeat=d))
    # paths through a name no selection mentions
    ps.extend([(foreign,), (alphabet[0], foreign), (foreign, alphabet[0]), (alphabet[0], alphabet[1], foreign)])
    return ps


def atoms(alphabet=("a", "b", "c")):
    a, b, c = alphabet
    out = [("none",), ("all",)]
    out += [("str", x) for x in alphabet]
    out += [("tup", (a,)), ("tup", (a, b)), ("tup", (a, a)), ("tup", (b, c)), ("tup", (a, b, c)), ("tup", (a, b, a))]
    vals = [("all",), ("none",), ("str", b), ("tup", (b, c))]
    for v in vals:
        out.append(("dict", ((a, v),)))
    for v, w in itertools.product(vals, repeat=2):
        out.append(("dict", ((a, v), (b, w))))
    return out


def close_once(xs, ys=None):
    ys = xs if ys is None else ys
    for x in xs:
        yield ("not", x)
    for x in xs:
        for y in ys:
            yield ("or", x, y)
            yield ("and", x, y)


def dedupe(exprs, paths, per_ctor=True):
    """One representative per (denotation over `paths`, top constructor)."""
    seen = {}
    for e in exprs:
        k = tuple(den(e, p) for p in paths)
        k = (k, e[0]) if per_ctor else k
        if k not in seen:
            seen[k] = e
    return list(seen.values())
