"""The sampler seam: the single place where the explorer owns genjax's randomness.

`install()` wraps `genjax.pjax.SamplerConfig.get_keyful_sampler_with_shape` (the original
body still runs; only its *result* is wrapped).  Every keyful sampler invocation -- unseeded
(`KeylessWrapper`), seeded (`FlatSamplerCache`), built-in distributions, MCMC accept
uniforms, SMC ancestor draws, ADEV internal draws -- then computes its real draw and hands
`(name, concrete key, concrete args, real draw)` to the current `Env` through
`jax.experimental.io_callback(ordered=False)`.

Modes
  monitor : record events, return the real draw (gradients untouched).
  script  : return `decisions[key]` where present (whole array or per-lane dict), else the
            real draw; record events.

Decisions are indexed by the *concrete PRNG key* of the site invocation, never by call
order, so one table drives eager, jit, scan-staged and vmapped executions alike.
"""

from __future__ import annotations

import threading
from dataclasses import dataclass, field
from functools import partial

import numpy as np

import jax
import jax.numpy as jnp
import jax.tree_util as jtu
from jax.experimental import io_callback

# event_ndims of the value of each named sampler (everything else is scalar-event)
EVENT_NDIMS = {
    "MultivariateNormal": 1,
    "MultivariateNormalFullCovariance": 1,
    "MultivariateNormalDiag": 1,
    "Dirichlet": 1,
    "Multinomial": 1,
}


@dataclass
class Event:
    name: str | None
    key: bytes  # raw key data
    args: tuple  # concrete numpy arrays (positional), kwargs appended as (name, value)
    kwargs: dict
    sample_shape: tuple
    real: np.ndarray
    value: np.ndarray  # what the sampler returned to genjax
    scripted: np.ndarray | None = None  # bool mask over lanes (script mode)

    def lanes(self):
        """Number of batch lanes of the value (event dims excluded)."""
        nd = EVENT_NDIMS.get(self.name or "", 0)
        shp = self.value.shape[: self.value.ndim - nd] if nd else self.value.shape
        return int(np.prod(shp, dtype=np.int64)) if shp else 1

    def lane_shape(self):
        nd = EVENT_NDIMS.get(self.name or "", 0)
        return self.value.shape[: self.value.ndim - nd] if nd else self.value.shape

    def keyhex(self):
        return self.key.hex()

    def brief(self):
        return {
            "name": self.name,
            "key": self.key.hex(),
            "args": [np.asarray(a).tolist() for a in self.args],
            "kwargs": {k: np.asarray(v).tolist() for k, v in self.kwargs.items()},
            "sample_shape": list(self.sample_shape),
            "value": np.asarray(self.value).tolist(),
        }


@dataclass
class Env:
    mode: str = "monitor"  # monitor | script
    decisions: dict = field(default_factory=dict)  # key bytes -> ndarray | {lane:int -> value}
    events: list = field(default_factory=list)
    lock: threading.Lock = field(default_factory=threading.Lock)

    def reset(self, mode=None, decisions=None):
        if mode is not None:
            self.mode = mode
        self.decisions = {} if decisions is None else decisions
        self.events = []


ENV = Env()
# Trace-time switch: while False the wrapped samplers emit no callback at all (needed where JAX
# cannot batch an IO effect, e.g. vmap of lax.cond).  Functions traced while disabled stay so.
ENABLED = [True]


class disabled:
    def __enter__(self):
        self._old = ENABLED[0]
        ENABLED[0] = False

    def __exit__(self, *a):
        ENABLED[0] = self._old

_installed = False
_orig = None


def _decide(ev_name, key_bytes, real):
    """Value to return for this invocation, and the mask of scripted lanes."""
    d = ENV.decisions.get(key_bytes)
    if ENV.mode != "script" or d is None:
        return real, None
    if isinstance(d, dict):
        nd = EVENT_NDIMS.get(ev_name or "", 0)
        lane_shape = real.shape[: real.ndim - nd] if nd else real.shape
        out = np.array(real, copy=True)
        mask = np.zeros(lane_shape, dtype=bool)
        flat_out = out.reshape((-1,) + real.shape[real.ndim - nd :] if nd else (-1,))
        flat_mask = mask.reshape(-1)
        for lane, v in d.items():
            flat_out[lane] = np.asarray(v, dtype=real.dtype)
            flat_mask[lane] = True
        return flat_out.reshape(real.shape), flat_mask.reshape(lane_shape)
    v = np.asarray(d, dtype=real.dtype)
    if v.shape != real.shape:
        v = np.broadcast_to(v, real.shape).copy()
    return v, np.ones(real.shape[: real.ndim - EVENT_NDIMS.get(ev_name or "", 0)] if EVENT_NDIMS.get(ev_name or "", 0) else real.shape, dtype=bool)


def _make_callback(name, sample_shape, n_args, kw_names):
    def cb(key_data, real, *leaves):
        key_bytes = np.asarray(key_data).tobytes()
        real = np.asarray(real)
        value, mask = _decide(name, key_bytes, real)
        args = tuple(np.asarray(x) for x in leaves[:n_args])
        kwargs = {k: np.asarray(v) for k, v in zip(kw_names, leaves[n_args:])}
        ev = Event(name, key_bytes, args, kwargs, tuple(sample_shape), real, np.asarray(value), mask)
        with ENV.lock:
            ENV.events.append(ev)
        return np.asarray(value, dtype=real.dtype)

    return cb


def install():
    """Wrap the sampler choke point.  Idempotent.  Fails loudly if the seam moved."""
    global _installed, _orig
    if _installed:
        return
    import genjax.pjax as pjax

    if not hasattr(pjax, "SamplerConfig") or not hasattr(
        pjax.SamplerConfig, "get_keyful_sampler_with_shape"
    ):
        raise RuntimeError("sampler seam not found: SamplerConfig.get_keyful_sampler_with_shape")
    _orig = pjax.SamplerConfig.get_keyful_sampler_with_shape

    def patched(self):
        f = _orig(self)
        name = self.name
        if name is None:
            # forward sampler of an ADEV primitive (pure continuations sample later sites plainly)
            ap = getattr(self, "primitive_params", {}).get("adev_prim") if isinstance(getattr(self, "primitive_params", None), dict) else None
            if ap is not None:
                kf = getattr(getattr(ap, "keyful_sample_function", None), "value", None)
                name = "ADEV:" + (getattr(kf, "__name__", None) or type(ap).__name__)
        sample_shape = tuple(self.sample_shape)

        def sampler(key, *args, **kwargs):
            real = f(key, *args, **kwargs)
            if not ENABLED[0]:
                return real
            kw_names = tuple(sorted(k for k in kwargs if k != "sample_shape"))
            arg_leaves = [jnp.asarray(a) for a in args]
            # pytrees as positional args are flattened (rare)
            flat = []
            for a in args:
                flat.extend(jtu.tree_leaves(a))
            flat = [jnp.asarray(a) for a in flat]
            kw_leaves = [jnp.asarray(kwargs[k]) for k in kw_names]
            cb = _make_callback(name, sample_shape, len(flat), kw_names)
            real_arr = jnp.asarray(real)
            out = io_callback(
                cb,
                jax.ShapeDtypeStruct(real_arr.shape, real_arr.dtype),
                jax.random.key_data(key),
                jax.lax.stop_gradient(real_arr),
                *[jax.lax.stop_gradient(x) for x in flat + kw_leaves],
                ordered=False,
            )
            # `real + stop_gradient(out - real)`: value == out (exactly, out is what the
            # callback returned: real itself in monitor mode / on unscripted lanes) while
            # the derivative w.r.t. the sampler's parameters is that of the real draw.
            if jnp.issubdtype(real_arr.dtype, jnp.floating):
                return jnp.where(out == real_arr, real_arr, jax.lax.stop_gradient(out))
            return out

        return sampler

    pjax.SamplerConfig.get_keyful_sampler_with_shape = patched
    _installed = True


def run_recorded(fn, *args, mode="monitor", decisions=None, **kwargs):
    """Run `fn(*args)` with a fresh event list; return (out, events in runtime order)."""
    ENV.reset(mode, decisions)
    try:
        out = fn(*args, **kwargs)
        out = jax.block_until_ready(out)
    except BaseException:
        ENV.reset("monitor")
        raise
    # io_callback(ordered=False) effects are flushed by block_until_ready on outputs that
    # depend on them; make sure stragglers (draws whose value reaches no output) are in.
    jax.effects_barrier()
    evs = ENV.events
    ENV.reset("monitor")  # never leave a stale decision table behind
    return out, evs


def key_bytes(key) -> bytes:
    return np.asarray(jax.random.key_data(key)).tobytes()
