"""The program family explored by C01-C05, C08-C10: hand-written bodies composed with the
Vmap / repeat / Scan / Cond combinators, keyword arguments, event-shaped and user-wrapped
distributions.  Each entry: name -> (Prog, [args tuples], tier)."""

from __future__ import annotations

import numpy as np

from mc.lang import Call, CondCall, Prog, ScanCall, Site, VmapCall

f32 = np.float32


def A(*xs):
    return np.asarray(xs, np.float32)


# ---------------------------------------------------------------- bodies

indep = Prog(
    "indep",
    ("a",),
    (Site("x", "flip", ("0.3",)), Site("y", "normal", ("a", "1.0"))),
    "y + xp.where(x, 1.0, 0.0)",
)

chain = Prog(
    "chain",
    ("a",),
    (Site("x", "normal", ("a", "1.0")), Site("y", "normal", ("0.5 * x + 1.0", "0.7"))),
    "y",
)

fanin = Prog(
    "fanin",
    ("a",),
    (
        Site("z", "flip", ("0.4",)),
        Site("w", "categorical", ("xp.asarray([0.1, 0.5, -0.3]) + a * xp.asarray([0.0, 1.0, 0.0])",)),
        Site("y", "normal", ("xp.where(z, 1.0, -1.0) + w", "0.5")),
    ),
    "y",
)

disc = Prog(
    "disc",
    ("a",),
    (
        Site("x", "flip", ("0.3",)),
        Site("y", "flip", ("xp.where(x, 0.8, 0.1)",)),
        Site("c", "categorical", ("xp.where(y, 1.0, -0.5) * xp.asarray([0.0, 1.0, 2.0])",)),
    ),
    "c + xp.where(x, 10, 0)",
)

vecsite = Prog(
    "vecsite",
    ("a",),
    (
        Site("m", "mvn", ("xp.stack([a, 0.0 * a])", "xp.asarray([[1.0, 0.3], [0.3, 2.0]])")),
        Site("y", "normal", ("m[0] + m[1]", "1.0")),
    ),
    "y",
)

expo = Prog(
    "expo",
    ("a",),
    (Site("r", "exponential", ("2.0",)), Site("y", "normal", ("a", "r + 0.5"))),
    "y * r",
)

user = Prog(
    "user",
    ("a",),
    (Site("u", "mynormal", ("a",)), Site("y", "flip", ("xp.where(u > 0.0, 0.7, 0.2)",))),
    "u",
)

# a hard constraint: bounded support that moves with a parent (density 0 outside)
bounded = Prog(
    "bounded",
    ("a",),
    (Site("x", "normal", ("a", "1.0")), Site("u", "uniform", ("x - 1.0", "x + 1.0")), Site("y", "normal", ("u", "0.5"))),
    "y",
)

# vector-parameterised site: one address whose value and score are vectors
vecparam = Prog(
    "vecparam",
    ("av",),
    (Site("x", "normal", ("av", "1.0")), Site("y", "normal", ("xp.sum(x)", "0.5"))),
    "y",
)

# scalar location broadcast against a vector scale (the value is a vector, the location is not)
vecscale = Prog(
    "vecscale",
    ("a",),
    (Site("x", "normal", ("a", "xp.asarray([0.5, 1.5])")), Site("y", "normal", ("x[0] * x[1]", "0.5"))),
    "y",
)

# keyword arguments: at a distribution site and at a sub-call
inner_kw = Prog("inner_kw", ("x", "scale"), (Site("y", "normal", ("x",), (("scale", "scale"),)),), "y")
kw = Prog(
    "kw",
    ("a",),
    (Site("x", "normal", ("a",), (("scale", "2.0"),)), Call("s", inner_kw, ("x",), (("scale", "0.5"),))),
    "s",
)

# keyword arguments reaching a callee through the combinators
step_kw = Prog("step_kw", ("c", "x", "scale"), (Site("z", "normal", ("c + x", "scale")),), "(z, 2.0 * z)")
vmap_kw = Prog("vmap_kw", ("av",), (VmapCall("v", inner_kw, (0,), None, ("av",), False, (("scale", "0.5"),)),), "xp.sum(v)")
scan_kw = Prog("scan_kw", ("a", "xs"), (ScanCall("s", step_kw, 2, "a", "xs", (("scale", "0.7"),)),), "s[0]")

# a site whose keyword parameter differs from lane to lane under Vmap
kwsite = Prog(
    "kwsite",
    ("a", "b"),
    (Site("x", "flip", ("0.4",)), Site("y", "normal", ("a",), (("scale", "xp.where(x, 0.5, 1.5) + 0.1 * xp.abs(b)"),))),
    "y",
)
vmap_kwsite = Prog("vmap_kwsite", ("av", "bv"), (VmapCall("v", kwsite, (0, 0), None, ("av", "bv")),), "xp.sum(v)")

# two-parameter body for in_axes=(None, 0)
two = Prog(
    "two",
    ("a", "b"),
    (Site("x", "flip", ("0.25 + 0.5 * (b > 0.0)",)), Site("y", "normal", ("a + b", "xp.where(x, 0.5, 1.5)"))),
    "y",
)

# scan steps: (carry, x) -> (carry, out)
step_c = Prog("step_c", ("c", "x"), (Site("z", "normal", ("c + x", "1.0")),), "(z, 2.0 * z)")
step_d = Prog(
    "step_d",
    ("c", "x"),
    (Site("s", "flip", ("xp.where(c > 0.5, 0.8, 0.3)",)), Site("o", "normal", ("xp.where(s, 1.0, -1.0) + x", "0.5"))),
    "(xp.where(s, 1.0, 0.0), o)",
)
step_dd = Prog(
    "step_dd",
    ("c", "x"),
    (Site("s", "categorical", ("xp.asarray([0.0, 0.7]) * (c + 1.0) + x * xp.asarray([0.3, 0.0])",)),),
    "(1.0 * s, s)",
)

# cond branches: same addresses, different parameters (so hidden draws are recognisable)
br_t = Prog("br_t", ("a",), (Site("v", "normal", ("a + 1.0", "0.5")),), "v")
br_f = Prog("br_f", ("a",), (Site("v", "normal", ("a - 2.0", "1.5")),), "v")
brd_t = Prog("brd_t", ("a",), (Site("v", "flip", ("0.9",)),), "xp.where(v, 1.0, 0.0)")
brd_f = Prog("brd_f", ("a",), (Site("v", "flip", ("0.2",)),), "xp.where(v, 1.0, 0.0)")


# branches with different supports (the untaken branch may score a value at -inf)
brs_t = Prog("brs_t", ("a",), (Site("v", "uniform", ("0.0", "1.0")),), "v")
brs_f = Prog("brs_f", ("a",), (Site("v", "normal", ("a", "3.0")),), "v")
# branches that call a sub-function at the same address: shared addresses at depth 2
inner_t = Prog("inner_t", ("a",), (Site("v", "flip", ("0.9",)),), "xp.where(v, 1.0, 0.0)")
inner_f = Prog("inner_f", ("a",), (Site("v", "flip", ("0.2",)),), "xp.where(v, 1.0, 0.0)")
brn_t = Prog("brn_t", ("a",), (Call("s", inner_t, ("a",)),), "s")
brn_f = Prog("brn_f", ("a",), (Call("s", inner_f, ("a",)),), "s")
# branches returning a pytree (tuple)
brp_t = Prog("brp_t", ("a",), (Site("v", "normal", ("a + 1.0", "0.5")),), "(v, 2.0 * v)")
brp_f = Prog("brp_f", ("a",), (Site("v", "normal", ("a - 2.0", "1.5")),), "(v, v + 1.0)")
innerc_t = Prog("innerc_t", ("a",), (Site("v", "normal", ("a + 1.0", "0.5")),), "v")
innerc_f = Prog("innerc_f", ("a",), (Site("v", "normal", ("a - 2.0", "1.5")),), "v")
brnc_t = Prog("brnc_t", ("a",), (Call("s", innerc_t, ("a",)),), "s")
brnc_f = Prog("brnc_f", ("a",), (Call("s", innerc_f, ("a",)),), "s")


# ---------------------------------------------------------------- compositions (depth 1)

call_chain = Prog("call_chain", ("a",), (Call("s", chain, ("a",)), Site("t", "normal", ("s", "1.0"))), "t")
call_disc = Prog("call_disc", ("a",), (Call("s", disc, ("a",)), Site("t", "flip", ("xp.where(s > 5, 0.6, 0.3)",))), "t")

vmap_indep = Prog("vmap_indep", ("av",), (VmapCall("v", indep, (0,), None, ("av",)),), "xp.sum(v)")
vmap_int_axes = Prog("vmap_int_axes", ("av",), (VmapCall("v", chain, 0, None, ("av",)),), "xp.sum(v)")
vmap_two = Prog("vmap_two", ("a", "bv"), (VmapCall("v", two, (None, 0), None, ("a", "bv")),), "xp.sum(v)")
vmap_dist = Prog(
    "vmap_dist",
    ("av",),
    (VmapCall("v", "normal", (0, None), None, ("av", "1.0")), Site("y", "normal", ("xp.sum(v)", "1.0"))),
    "y",
)
repeat_disc = Prog("repeat_disc", ("a",), (VmapCall("r", disc, None, 2, ("a",), True), Site("y", "normal", ("1.0 * xp.sum(r)", "1.0"))), "y")
repeat_chain = Prog("repeat_chain", ("a",), (VmapCall("r", chain, None, 2, ("a",), True),), "xp.sum(r)")
# axis 1 of a matrix argument
vmap_axis1 = Prog("vmap_axis1", ("am",), (VmapCall("v", vecparam, (1,), None, ("am",)),), "xp.sum(v)")

scan_c = Prog("scan_c", ("a", "xs"), (ScanCall("s", step_c, 2, "a", "xs"), Site("y", "normal", ("s[0]", "1.0"))), "y + xp.sum(s[1])")
scan_d3 = Prog("scan_d3", ("a", "xs"), (ScanCall("s", step_d, 3, "a", "xs"),), "s[0]")
scan_dd = Prog("scan_dd", ("a", "xs"), (ScanCall("s", step_dd, 3, "a", "xs"),), "s[0]")

cond_c = Prog(
    "cond_c",
    ("a", "flag"),
    (CondCall("c", br_t, br_f, "flag", ("a",)), Site("y", "normal", ("c", "1.0"))),
    "y",
)
# the predicate is a sampled value
cond_pred = Prog(
    "cond_pred",
    ("a",),
    (Site("z", "flip", ("0.35",)), CondCall("c", brd_t, brd_f, "z", ("a",)), Site("y", "flip", ("xp.where(c > 0.5, 0.75, 0.25)",))),
    "y",
)

cond_support = Prog(
    "cond_support",
    ("a", "flag"),
    (CondCall("c", brs_t, brs_f, "flag", ("a",)), Site("y", "normal", ("c", "1.0"))),
    "y",
)
cond_nested = Prog(
    "cond_nested",
    ("a", "flag"),
    (CondCall("c", brn_t, brn_f, "flag", ("a",)), Site("y", "flip", ("xp.where(c > 0.5, 0.75, 0.25)",))),
    "y",
)

cond_tuple_ret = Prog(
    "cond_tuple_ret",
    ("a", "flag"),
    (CondCall("c", brp_t, brp_f, "flag", ("a",)), Site("y", "normal", ("c[0] + c[1]", "1.0"))),
    "(y, c[1])",
)
cond_nested_c = Prog(
    "cond_nested_c",
    ("a", "flag"),
    (CondCall("c", brnc_t, brnc_f, "flag", ("a",)), Site("y", "normal", ("c", "1.0"))),
    "y",
)

# ---------------------------------------------------------------- depth 2

vmap_scan = Prog("vmap_scan", ("av", "xs"), (VmapCall("v", scan_dd, (0, None), None, ("av", "xs")),), "xp.sum(v)")
scan_body_vmap = Prog(
    "scan_body_vmap",
    ("c", "x"),
    (VmapCall("w", "flip", (0,), None, ("xp.stack([0.2 + 0.1 * x, 0.6 + 0.0 * c])",)),),
    "(c + 1.0 * xp.sum(w), w)",
)
scan_vmap = Prog("scan_vmap", ("a", "xs"), (ScanCall("s", scan_body_vmap, 2, "a", "xs"),), "s[0]")
scan_body_cond = Prog(
    "scan_body_cond",
    ("c", "x"),
    (CondCall("b", brd_t, brd_f, "x > 0.0", ("c",)),),
    "(c + b, b)",
)
scan_cond = Prog("scan_cond", ("a", "xs"), (ScanCall("s", scan_body_cond, 2, "a", "xs"),), "s[0]")
call_call = Prog("call_call", ("a",), (Call("o", call_chain, ("a",)), Site("z", "flip", ("xp.where(o > 0.0, 0.7, 0.4)",))), "z")
vmap_call = Prog("vmap_call", ("av",), (VmapCall("v", call_disc, (0,), None, ("av",)),), "xp.sum(v)")
cond_in_vmap_body = Prog("cond_in_vmap_body", ("a",), (CondCall("c", brd_t, brd_f, "a > 0.0", ("a",)),), "c")
vmap_cond = Prog("vmap_cond", ("av",), (VmapCall("v", cond_in_vmap_body, (0,), None, ("av",)),), "xp.sum(v)")
repeat_vecsite = Prog("repeat_vecsite", ("a",), (VmapCall("r", vecsite, None, 2, ("a",), True),), "xp.sum(r)")


FAMILY = {
    # name: (prog, args list, tier)
    "indep": (indep, [(f32(0.3),), (f32(-1.2),)], "quick"),
    "chain": (chain, [(f32(0.3),), (f32(-1.2),)], "quick"),
    "fanin": (fanin, [(f32(0.3),)], "quick"),
    "disc": (disc, [(f32(0.3),)], "quick"),
    "vecsite": (vecsite, [(f32(0.3),)], "quick"),
    "expo": (expo, [(f32(-1.2),)], "quick"),
    "user": (user, [(f32(0.3),)], "quick"),
    "vecparam": (vecparam, [(A(0.1, 0.7),)], "quick"),
    "bounded": (bounded, [(f32(0.3),)], "quick"),
    "vecscale": (vecscale, [(f32(0.3),)], "quick"),
    "kw": (kw, [(f32(0.3),)], "quick"),
    "vmap_kw": (vmap_kw, [(A(0.1, 0.7),)], "quick"),
    "vmap_kwsite": (vmap_kwsite, [(A(0.1, 0.7), A(0.5, -2.0))], "quick"),
    "scan_kw": (scan_kw, [(f32(0.3), A(0.5, -0.4))], "quick"),
    "call_chain": (call_chain, [(f32(0.3),)], "quick"),
    "call_disc": (call_disc, [(f32(0.3),)], "quick"),
    "vmap_indep": (vmap_indep, [(A(0.1, 0.7),)], "quick"),
    "vmap_int_axes": (vmap_int_axes, [(A(0.1, 0.7),)], "quick"),
    "vmap_two": (vmap_two, [(f32(0.3), A(0.5, -0.4))], "quick"),
    "vmap_dist": (vmap_dist, [(A(0.1, 0.7),)], "quick"),
    "repeat_disc": (repeat_disc, [(f32(0.3),)], "quick"),
    "repeat_chain": (repeat_chain, [(f32(-1.2),)], "quick"),
    "vmap_axis1": (vmap_axis1, [(np.asarray([[0.1, 0.7], [0.5, -0.4]], np.float32),)], "quick"),
    "vmap_axis1_wide": (vmap_axis1, [(np.asarray([[0.1, 0.7, -0.2], [0.5, -0.4, 1.1]], np.float32),)], "thorough"),
    "scan_c": (scan_c, [(f32(0.3), A(0.5, -0.4))], "quick"),
    "scan_d3": (scan_d3, [(f32(0.3), A(0.5, -0.4, 1.1))], "quick"),
    "scan_dd": (scan_dd, [(f32(0.3), A(0.5, -0.4, 1.1))], "quick"),
    "cond_c": (cond_c, [(f32(0.3), np.bool_(True)), (f32(0.3), np.bool_(False))], "quick"),
    "cond_pred": (cond_pred, [(f32(0.3),)], "quick"),
    "cond_support": (cond_support, [(f32(0.3), np.bool_(True)), (f32(0.3), np.bool_(False))], "quick"),
    "cond_nested": (cond_nested, [(f32(0.3), np.bool_(True)), (f32(0.3), np.bool_(False))], "quick"),
    "cond_nested_c": (cond_nested_c, [(f32(0.3), np.bool_(True))], "quick"),
    "cond_tuple_ret": (cond_tuple_ret, [(f32(0.3), np.bool_(False))], "quick"),
    # depth 2
    "vmap_scan": (vmap_scan, [(A(0.1, 0.7), A(0.5, -0.4, 1.1))], "thorough"),
    "scan_vmap": (scan_vmap, [(f32(0.3), A(0.5, -0.4))], "thorough"),
    "scan_cond": (scan_cond, [(f32(0.3), A(0.5, -0.4))], "thorough"),
    "call_call": (call_call, [(f32(0.3),)], "thorough"),
    "vmap_call": (vmap_call, [(A(0.1, 0.7),)], "thorough"),
    "vmap_cond": (vmap_cond, [(A(0.1, -0.7),)], "thorough"),
    "repeat_vecsite": (repeat_vecsite, [(f32(0.3),)], "thorough"),
}


# additional "new argument" values for update / regenerate (not explored by simulate/generate)
ALT_ARGS = {
    "fanin": [(f32(-1.2),)],
    "disc": [(f32(-1.2),)],
    "vecsite": [(f32(-1.2),)],
    "expo": [(f32(0.3),)],
    "user": [(f32(-1.2),)],
    "vecparam": [(A(0.5, -0.4),)],
    "bounded": [(f32(-1.2),)],
    "vecscale": [(f32(-1.2),)],
    "kw": [(f32(-1.2),)],
    "vmap_kw": [(A(0.5, -0.4),)],
    "vmap_kwsite": [(A(0.5, -0.4), A(1.0, 0.2))],
    "scan_kw": [(f32(-1.2), A(1.1, 0.1))],
    "call_chain": [(f32(-1.2),)],
    "call_disc": [(f32(-1.2),)],
    "vmap_indep": [(A(0.5, -0.4),)],
    "vmap_int_axes": [(A(0.5, -0.4),)],
    "vmap_two": [(f32(-1.2), A(0.5, -0.4)), (f32(0.3), A(-0.1, 0.7))],
    "vmap_dist": [(A(0.5, -0.4),)],
    "repeat_disc": [(f32(-1.2),)],
    "repeat_chain": [(f32(0.3),)],
    "vmap_axis1": [(np.asarray([[0.5, -0.4], [0.1, 0.7]], np.float32),)],
    "scan_c": [(f32(-1.2), A(0.5, -0.4)), (f32(0.3), A(1.1, 0.1))],
    "scan_d3": [(f32(0.8), A(0.5, -0.4, 1.1)), (f32(0.3), A(-0.4, 0.5, 0.1))],
    "scan_dd": [(f32(-1.2), A(0.5, -0.4, 1.1)), (f32(0.3), A(-0.4, 0.5, 0.1))],
    "cond_c": [(f32(-1.2), np.bool_(True)), (f32(-1.2), np.bool_(False))],
    "cond_pred": [(f32(-1.2),)],
    "cond_support": [(f32(-1.2), np.bool_(False))],
    "cond_nested": [(f32(-1.2), np.bool_(True))],
    "cond_nested_c": [(f32(-1.2), np.bool_(True))],
    "cond_tuple_ret": [(f32(-1.2), np.bool_(False)), (f32(0.3), np.bool_(True))],
    "vmap_scan": [(A(0.5, -0.4), A(0.5, -0.4, 1.1))],
    "scan_vmap": [(f32(-1.2), A(0.5, -0.4)), (f32(0.3), A(1.1, 0.1))],
    "scan_cond": [(f32(0.3), A(-0.5, 0.4))],
    "call_call": [(f32(-1.2),)],
    "vmap_call": [(A(0.5, -0.4),)],
    "vmap_cond": [(A(-0.1, 0.7),)],
    "repeat_vecsite": [(f32(-1.2),)],
}


MENU_SIZE = {"flip": 2, "categorical": 3, "normal": 3, "exponential": 2, "mvn": 2, "mynormal": 3, "uniform": 2}


GENERATED_LEAVES = {}


def tree_size(name):
    """Number of leaves of the full simulate choice tree (product of menu sizes over element sites)."""
    if name in GENERATED_LEAVES:
        return GENERATED_LEAVES[name]
    from mc import ref as R
    from checks.c01 import _all_sites

    prog, argsl, _t = FAMILY[name]
    # element sites: evaluate the reference on a dummy choice map is overkill; count statically via lanes
    n = 1
    import numpy as _np

    def count(p, mult):
        nonlocal n
        from mc.lang import Site, Call, VmapCall, ScanCall, CondCall

        for st in p.body:
            if isinstance(st, Site):
                n *= MENU_SIZE[st.dist] ** mult
            elif isinstance(st, Call):
                count(st.prog, mult)
            elif isinstance(st, VmapCall):
                lanes = st.axis_size or LANES.get(name, 2)
                if isinstance(st.callee, str):
                    n *= MENU_SIZE[st.callee] ** (mult * lanes)
                else:
                    count(st.callee, mult * lanes)
            elif isinstance(st, ScanCall):
                count(st.prog, mult * st.length)
            elif isinstance(st, CondCall):
                count(st.pt, mult)
                count(st.pf, mult)

    count(prog, 1)
    return n


LANES = {"vmap_axis1_wide": 3}
VECTOR_SITES = {"vecparam": 2, "vecscale": 2, "vmap_axis1": 2, "vmap_axis1_wide": 2}


def programs(tier, max_tree=None):
    out = []
    for name, (prog, argsl, t) in FAMILY.items():
        if tier == "thorough" or t == "quick":
            if max_tree is not None and tree_size(name) * (3 ** (VECTOR_SITES.get(name, 1) - 1)) ** (LANES.get(name, 2) if "vmap" in name else 1) > max_tree:
                continue
            out.append(name)
    return out


# generated programs cheap enough for the quick tiers: partial constraints / selections *inside* a
# Cond whose branches hold several sites (no hand-written program has that; see the aa3f929 fix)
QUICK_GENERATED = ("cond[disc]", "cond[chain]")


def _add_generated():
    """Systematically generated depth-1/2 compositions (thorough tiers only); see mc/generated.py."""
    from mc import generated as G

    for name, (prog, argsl, nl) in G.generated(3000, 2).items():
        if name in FAMILY:
            continue
        FAMILY[name] = (prog, [argsl[0]], "quick" if name in QUICK_GENERATED else "thorough")
        ALT_ARGS[name] = [argsl[1]]
        GENERATED_LEAVES[name] = nl


_add_generated()
