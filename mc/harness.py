"""Runner plumbing: work fan-out, violation records, replays, known findings, evidence."""

from __future__ import annotations

import fnmatch
import hashlib
import json
import multiprocessing as mp
import os
import subprocess
import sys
import time
import traceback
from dataclasses import dataclass, field

VERIF = os.path.dirname(os.path.dirname(os.path.abspath(__file__)))
EVIDENCE_DIR = os.path.join(VERIF, "evidence")
REPLAY_DIR = os.path.join(VERIF, "replays")
KNOWN = os.path.join(VERIF, "KNOWN_FINDINGS.txt")
SCHEMA = "/root/.vp/EVIDENCE.schema.json"


def close(a, b, rtol=2e-4, atol=2e-4):
    import numpy as np

    a = np.asarray(a, dtype=np.float64)
    b = np.asarray(b, dtype=np.float64)
    if a.shape != b.shape:
        try:
            a, b = np.broadcast_arrays(a, b)
        except ValueError:
            return False
    both_inf = np.isinf(a) & np.isinf(b) & (np.sign(a) == np.sign(b))
    with np.errstate(invalid="ignore"):
        ok = np.abs(a - b) <= atol + rtol * np.abs(b)
    return bool(np.all(ok | both_inf))


def bits_equal(a, b):
    import numpy as np

    a = np.asarray(a)
    b = np.asarray(b)
    return a.shape == b.shape and a.dtype == b.dtype and a.tobytes() == b.tobytes()


def jsonable(x):
    import numpy as np

    if isinstance(x, dict):
        return {str(k): jsonable(v) for k, v in x.items()}
    if isinstance(x, (list, tuple)):
        return [jsonable(v) for v in x]
    if isinstance(x, (bytes, bytearray)):
        return x.hex()
    if isinstance(x, (str, int, bool)) or x is None:
        return x
    if isinstance(x, float):
        if x != x or x in (float("inf"), float("-inf")):
            return str(x)
        return x
    try:
        a = np.asarray(x)
        if a.dtype == object:
            return str(x)
        if a.ndim == 0:
            return jsonable(a.item())
        return jsonable(a.tolist())
    except Exception:
        return str(x)


@dataclass
class Violation:
    prop: str
    sig: str  # stable signature: what fails (program / operation / address), no numbers
    detail: dict  # replayable case

    def to_json(self):
        return {"property": self.prop, "sig": self.sig, "detail": jsonable(self.detail)}


@dataclass
class Result:
    """What one work item (or a whole check) covered."""

    evaluations: int = 0  # real executions of genjax code
    states: int = 0  # leaves / distinct canonical states
    transitions: int = 0  # real calls explored (tree nodes / BFS edges)
    validated: int = 0  # executions whose every observable was compared with the reference
    nontrivial: int = 0
    distinct: set = field(default_factory=set)  # hashes of distinct cases (bounded)
    samples: list = field(default_factory=list)
    violations: list = field(default_factory=list)
    notes: dict = field(default_factory=dict)
    capped: bool = False

    def add_sample(self, s, cap=6):
        if len(self.samples) < cap:
            self.samples.append(jsonable(s))

    def case(self, *parts):
        """Register a distinct non-trivial case by content."""
        h = hashlib.sha1(repr(parts).encode()).hexdigest()[:16]
        self.distinct.add(h)

    def violate(self, prop, sig, **detail):
        if len(self.violations) < 200:
            self.violations.append(Violation(prop, sig, detail))

    def merge(self, o: "Result"):
        self.evaluations += o.evaluations
        self.states += o.states
        self.transitions += o.transitions
        self.validated += o.validated
        self.nontrivial += o.nontrivial
        self.distinct |= o.distinct
        for s in o.samples:
            self.add_sample(s)
        self.violations.extend(o.violations)
        for k, v in o.notes.items():
            if isinstance(v, (int, float)) and not isinstance(v, bool):
                self.notes[k] = self.notes.get(k, 0) + v
            elif isinstance(v, list):
                self.notes.setdefault(k, [])
                for x in v:
                    if len(self.notes[k]) < 40 and x not in self.notes[k]:
                        self.notes[k].append(x)
            else:
                self.notes[k] = v
        self.capped = self.capped or o.capped


# ---------------------------------------------------------------- workers


def _worker_init():
    # die with the parent: never leave orphaned workers behind a killed run
    try:
        import ctypes
        import signal

        ctypes.CDLL("libc.so.6", use_errno=True).prctl(1, signal.SIGKILL)  # PR_SET_PDEATHSIG
    except Exception:
        pass
    os.environ.setdefault("JAX_PLATFORMS", "cpu")
    os.environ.setdefault("XLA_FLAGS", "--xla_cpu_multi_thread_eigen=false intra_op_parallelism_threads=1")
    os.environ.setdefault("PYTHONHASHSEED", "0")
    if VERIF not in sys.path:
        sys.path.insert(0, VERIF)


def _worker_call(job):
    modname, fname, item, tier, seed = job
    _worker_init()
    import importlib

    mod = importlib.import_module(modname)
    t0 = time.time()
    try:
        res = getattr(mod, fname)(item, tier, seed)
        # leave no handler behind for the next item in this worker
        try:
            from genjax import core as _core

            _core.handler_stack.clear()
        except Exception:
            pass
        res.notes.setdefault("_item_s", []).append([str(item)[:60], round(time.time() - t0, 1)])
        try:
            import jax

            jax.clear_caches()  # compiled functions of this item are not needed by the next one
        except Exception:
            pass
        return ("ok", res)
    except Exception as e:  # harness failure, never silently dropped
        return ("err", f"{modname}.{fname}({str(item)[:200]}): {type(e).__name__}: {e}\n{traceback.format_exc()}")


def fan_out(modname, fname, items, tier, seed, workers=None):
    """Run `modname.fname(item, tier, seed) -> Result` for every item over spawned workers."""
    workers = workers or min(16, max(1, len(items)))
    jobs = [(modname, fname, it, tier, seed) for it in items]
    total = Result()
    errors = []
    if workers == 1 or len(items) == 1:
        outs = [_worker_call(j) for j in jobs]
    else:
        # A worker that dies (OOM kill, XLA crash) must fail the run loudly, never hang it:
        # ProcessPoolExecutor raises BrokenProcessPool, mp.Pool would wait forever.  (Workers are not
        # recycled: max_tasks_per_child deadlocks on CPython 3.12.1; every item clears the JAX
        # caches when it ends instead.)
        import concurrent.futures as cf

        ctx = mp.get_context("spawn")
        outs = []

        def run_batch(batch, nw):
            """-> jobs of `batch` that were lost because a worker died"""
            pending = list(batch)
            try:
                with cf.ProcessPoolExecutor(min(nw, len(batch)), mp_context=ctx, initializer=_worker_init, max_tasks_per_child=None) as ex:
                    futs = {ex.submit(_worker_call, j): j for j in batch}
                    for fu in cf.as_completed(futs):
                        outs.append(fu.result())
                        pending.remove(futs[fu])
            except cf.process.BrokenProcessPool as e:
                return pending, str(e)
            return [], None

        # Workers are replaced after every batch (bounds the memory a long thorough run accumulates in
        # XLA / tracing caches).  Items lost to a dead worker are re-run once on a smaller pool; if a
        # worker dies again the run is a harness error.
        chunk = workers * int(os.environ.get("VERIF_ITEMS_PER_WORKER", "12"))
        queue = list(jobs)
        while queue:
            batch, queue = queue[:chunk], queue[chunk:]
            lost, why = run_batch(batch, workers)
            if lost:
                print(f"[harness] a worker died ({why[:80]}); re-running {len(lost)} item(s) on {max(2, workers // 4)} workers", flush=True)
                lost2, why2 = run_batch(lost, max(2, workers // 4))
                for j in lost2:
                    outs.append(("err", f"worker process died twice while running {j[0]}.{j[1]}({str(j[2])[:120]}) or a sibling item: {why2}"))
    for tag, r in outs:
        if tag == "ok":
            total.merge(r)
        else:
            errors.append(r)
    return total, errors


# ---------------------------------------------------------------- known findings


def load_known():
    findings = []
    if os.path.exists(KNOWN):
        for line in open(KNOWN):
            line = line.strip()
            if line.startswith("finding:"):
                rest = line[len("finding:") :].strip()
                parts = rest.split(None, 2)
                prop = parts[0].split("=", 1)[1]
                sig = parts[1].split("=", 1)[1]
                what = parts[2] if len(parts) > 2 else ""
                findings.append((prop, sig, what))
    return findings


# ---------------------------------------------------------------- evidence + exit


def finish(prop, tier, seed, level, res: Result, errors, t0, rule, assumptions, extra=None, exhaustive=True):
    os.makedirs(EVIDENCE_DIR, exist_ok=True)
    os.makedirs(REPLAY_DIR, exist_ok=True)
    known = load_known()
    known_hit = {}
    new = {}
    for v in res.violations:
        hit = None
        for kp, ks, what in known:
            # a finding names one defect by a signature; `*` stands for the site kinds /
            # outer constructs through which the same call site is reached
            if kp == v.prop and (ks == v.sig or ("*" in ks and fnmatch.fnmatchcase(v.sig, ks))):
                hit = (kp, ks, what)
        if hit:
            known_hit.setdefault(hit, v)
        else:
            new.setdefault(v.sig, v)
    lines = []
    for (kp, ks, what), v in known_hit.items():
        lines.append(f"KNOWN-FINDING: property={kp} sig={ks} {what}")
    for sig, v in new.items():
        h = hashlib.sha1(sig.encode()).hexdigest()[:10]
        path = os.path.join(REPLAY_DIR, f"{prop}-{h}.json")
        with open(path, "w") as f:
            json.dump(v.to_json(), f, indent=1)
        lines.append(f"VIOLATION property={prop} replay={path}")
        lines.append(f"  sig: {sig}")
        lines.append("  " + json.dumps(jsonable(v.detail))[:1500])
    cov = {
        "states": int(res.states),
        "transitions": int(res.transitions),
        "traces_validated_against_impl": int(res.validated),
        "evaluations": int(res.evaluations),
        "distinct_nontrivial": int(len(res.distinct)) if res.distinct else int(res.nontrivial),
        "rule": rule,
        "samples": res.samples[:6] if res.samples else [],
        "exhaustive": bool(exhaustive and not res.capped and not errors),
        "capped": bool(res.capped),
        "known_findings_seen": [f"{kp}:{ks}" for (kp, ks, _w) in known_hit],
    }
    notes = {k: v for k, v in res.notes.items() if not k.startswith("_")}
    if "_item_s" in res.notes:
        slow = sorted(res.notes["_item_s"], key=lambda x: -x[1])[:5]
        notes["slowest_items_s"] = slow
    cov.update(jsonable(notes))
    if extra:
        cov.update(jsonable(extra))
    ev = {
        "property_id": prop,
        "tier": tier,
        "seed": int(seed),
        "level": level,
        "coverage": cov,
        "assumptions": assumptions,
        "wall_s": round(time.time() - t0, 2),
        "violations": len(new),
    }
    path = os.path.join(EVIDENCE_DIR, f"{prop}.json")
    with open(path, "w") as f:
        json.dump(ev, f, indent=1)
    # schema validation (jsonschema lives in the tooling venv)
    ok_schema = True
    try:
        r = subprocess.run(
            [
                "python3-vt",
                "-c",
                "import json,sys,jsonschema; jsonschema.validate(json.load(open(sys.argv[1])), json.load(open(sys.argv[2])))",
                path,
                SCHEMA,
            ],
            capture_output=True,
            text=True,
            timeout=120,
        )
        if r.returncode != 0:
            ok_schema = False
            print("HARNESS-ERROR: evidence does not validate:", r.stderr[-800:])
    except FileNotFoundError:
        pass
    for l in lines:
        print(l)
    print(
        f"[{prop} {tier}] states={cov['states']} transitions={cov['transitions']} validated={cov['traces_validated_against_impl']} "
        f"evaluations={cov['evaluations']} distinct={cov['distinct_nontrivial']} violations={len(new)} known={len(known_hit)} "
        f"wall={ev['wall_s']}s exhaustive={cov['exhaustive']}"
    )
    if errors:
        print(f"HARNESS-ERROR: {len(errors)} work item(s) failed in the harness itself:")
        for e in errors[:5]:
            print(e[:3000])
        return 2
    if not ok_schema:
        return 2
    if not cov["samples"]:
        print("HARNESS-ERROR: the check recorded no sample case")
        return 2
    if cov["states"] < 1 or cov["transitions"] < 1:
        print("HARNESS-ERROR: vacuous run (no states explored)")
        return 2
    return 1 if new else 0
