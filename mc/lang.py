"""A small modelling language shared by genjax (compile) and the reference (mc/ref.py).

Only the *syntax* is shared.  Expressions are Python source strings evaluated over a
namespace `xp` (jax.numpy when compiling to genjax, numpy in the reference) and the
variables bound so far (parameters, and one variable per statement named after its address).
Probabilistic semantics -- scoring, sampling, handlers, combinators -- are independent.
"""

from __future__ import annotations

from dataclasses import dataclass, field


@dataclass(frozen=True)
class Site:
    addr: str
    dist: str  # key of ref.DISTS
    args: tuple  # expression strings
    kwargs: tuple = ()  # ((name, expr), ...)


@dataclass(frozen=True)
class Call:
    addr: str
    prog: "Prog"
    args: tuple
    kwargs: tuple = ()


@dataclass(frozen=True)
class VmapCall:
    addr: str
    callee: object  # Prog | dist name (str)
    in_axes: object  # int | tuple | None
    axis_size: object  # int | None
    args: tuple
    repeat: bool = False  # use .repeat(n) sugar
    kwargs: tuple = ()  # keyword arguments (passed unmapped)


@dataclass(frozen=True)
class ScanCall:
    addr: str
    prog: "Prog"  # (carry, x) -> (carry, out)
    length: int
    init: str
    xs: str
    kwargs: tuple = ()


@dataclass(frozen=True)
class CondCall:
    addr: str
    pt: "Prog"
    pf: "Prog"
    pred: str
    args: tuple


@dataclass(frozen=True)
class Prog:
    name: str
    params: tuple
    body: tuple
    ret: str

    def __repr__(self):
        return f"Prog({self.name})"


def evaluate(src, xp, v):
    return eval(src, {"xp": xp, "__builtins__": {"len": len, "range": range, "tuple": tuple, "float": float, "True": True, "False": False, "None": None}}, v)


# ---------------------------------------------------------------- compile to genjax

_compiled = {}


def gj_dist(name):
    import genjax
    from mc import ref

    return ref.DISTS[name].gj()


def compile_prog(prog: Prog):
    """The real @gen function for `prog` (memoised per Prog object)."""
    if prog in _compiled:
        return _compiled[prog]
    import jax.numpy as jnp
    from genjax import gen, Scan, Cond, const

    callees = {}
    for st in prog.body:
        if isinstance(st, Call):
            callees[st.addr] = compile_prog(st.prog)
        elif isinstance(st, VmapCall):
            inner = gj_dist(st.callee) if isinstance(st.callee, str) else compile_prog(st.callee)
            if st.repeat:
                callees[st.addr] = inner.repeat(st.axis_size)
            else:
                callees[st.addr] = inner.vmap(in_axes=st.in_axes, axis_size=st.axis_size)
        elif isinstance(st, ScanCall):
            callees[st.addr] = Scan(compile_prog(st.prog), length=const(st.length))
        elif isinstance(st, CondCall):
            callees[st.addr] = Cond(compile_prog(st.pt), compile_prog(st.pf))

    def body(*args, **kw):
        v = dict(zip(prog.params, args))
        v.update(kw)
        for st in prog.body:
            if isinstance(st, Site):
                d = gj_dist(st.dist)
                a = [evaluate(e, jnp, v) for e in st.args]
                k = {n: evaluate(e, jnp, v) for n, e in st.kwargs}
                val = d(*a, **k) @ st.addr
            elif isinstance(st, Call):
                a = [evaluate(e, jnp, v) for e in st.args]
                k = {n: evaluate(e, jnp, v) for n, e in st.kwargs}
                val = callees[st.addr](*a, **k) @ st.addr
            elif isinstance(st, VmapCall):
                a = [evaluate(e, jnp, v) for e in st.args]
                k = {n: evaluate(e, jnp, v) for n, e in st.kwargs}
                val = callees[st.addr](*a, **k) @ st.addr
            elif isinstance(st, ScanCall):
                k = {n: evaluate(e, jnp, v) for n, e in st.kwargs}
                val = callees[st.addr](evaluate(st.init, jnp, v), evaluate(st.xs, jnp, v), **k) @ st.addr
            elif isinstance(st, CondCall):
                a = [evaluate(e, jnp, v) for e in st.args]
                val = callees[st.addr](evaluate(st.pred, jnp, v), *a) @ st.addr
            else:
                raise TypeError(st)
            v[st.addr] = val
        return evaluate(prog.ret, jnp, v)

    body.__name__ = prog.name
    fn = gen(body)
    _compiled[prog] = fn
    return fn


def describe(prog: Prog, indent=0):
    pad = "  " * indent
    lines = [f"{pad}def {prog.name}({', '.join(prog.params)}):"]
    for st in prog.body:
        if isinstance(st, Site):
            kw = "".join(f", {n}={e}" for n, e in st.kwargs)
            lines.append(f"{pad}  {st.addr} = {st.dist}({', '.join(st.args)}{kw}) @ '{st.addr}'")
        elif isinstance(st, Call):
            kw = "".join(f", {n}={e}" for n, e in st.kwargs)
            lines.append(f"{pad}  {st.addr} = {st.prog.name}({', '.join(st.args)}{kw}) @ '{st.addr}'")
        elif isinstance(st, VmapCall):
            cn = st.callee if isinstance(st.callee, str) else st.callee.name
            how = f"repeat({st.axis_size})" if st.repeat else f"vmap(in_axes={st.in_axes}, axis_size={st.axis_size})"
            lines.append(f"{pad}  {st.addr} = {cn}.{how}({', '.join(st.args)}) @ '{st.addr}'")
        elif isinstance(st, ScanCall):
            lines.append(f"{pad}  {st.addr} = Scan({st.prog.name}, length={st.length})({st.init}, {st.xs}) @ '{st.addr}'")
        elif isinstance(st, CondCall):
            lines.append(f"{pad}  {st.addr} = Cond({st.pt.name}, {st.pf.name})({st.pred}, {', '.join(st.args)}) @ '{st.addr}'")
    lines.append(f"{pad}  return {prog.ret}")
    subs = []
    for st in prog.body:
        for sub in (getattr(st, "prog", None), getattr(st, "pt", None), getattr(st, "pf", None), getattr(st, "callee", None)):
            if isinstance(sub, Prog) and sub not in subs:
                subs.append(sub)
    out = "\n".join(lines)
    for s in subs:
        out = describe(s, indent) + "\n" + out
    return out
