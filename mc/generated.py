"""Systematically generated compositions (thorough tiers): every body of a fixed list wrapped by
every combinator wrapper, to nesting depth 2, subject to a choice-tree size bound.

Wrappers (each produces a new Prog and the kinds of its parameters):
  call    s = P(..) @ "s" ; t ~ normal(reduce(s), 1)
  vmap    v = P.vmap(in_axes=(0,..))(lifted params) @ "v"
  repeat  r = P.repeat(2)(params) @ "r"
  cond    c = Cond(P, P')(flag, params) @ "c"     (P' = P with its scalar parameter shifted)
  scan    s = Scan(step[P], length=2)(a, xs) @ "s" with step(c, x): p = P(c + x) @ "p"
Parameter kinds: 's' scalar, 'v' vector(2), 'm' matrix(2,2), 'f' bool flag, 'x' scan inputs(2).
"""

from __future__ import annotations

import re

import numpy as np

from mc.lang import Call, CondCall, Prog, ScanCall, Site, VmapCall
from mc import family as F

RED = "1.0 * xp.sum(xp.asarray({}))"  # any return value (bool / int / float / vector) -> float scalar

BODIES = ["indep", "chain", "fanin", "disc", "vecsite", "expo", "user", "kw", "bounded", "vecscale"]


def _shift(prog: Prog, delta="1.5"):
    """Same addresses, parameter `a` replaced by (a - delta) everywhere (recursively)."""

    def sub(e):
        return re.sub(r"\ba\b", f"(a - {delta})", e)

    body = []
    for st in prog.body:
        if isinstance(st, Site):
            body.append(Site(st.addr, st.dist, tuple(sub(e) for e in st.args), tuple((n, sub(e)) for n, e in st.kwargs)))
        elif isinstance(st, Call):
            body.append(Call(st.addr, st.prog, tuple(sub(e) for e in st.args), tuple((n, sub(e)) for n, e in st.kwargs)))
        else:
            body.append(st)
    return Prog(prog.name + "~", prog.params, tuple(body), sub(prog.ret))


def wrap_call(P, kinds):
    args = tuple(P.params)
    return Prog(f"call[{P.name}]", P.params, (Call("s", P, args), Site("t", "normal", (RED.format("s"), "1.0"))), "t"), kinds


def wrap_vmap(P, kinds):
    lift = {"s": "v", "v": "m"}
    if any(k not in ("s", "v", "f", "x") for k in kinds) or "m" in kinds:
        return None
    in_axes = tuple(0 if k in lift else None for k in kinds)
    new_kinds = tuple(lift.get(k, k) for k in kinds)
    if not any(a == 0 for a in in_axes):
        return None
    return Prog(f"vmap[{P.name}]", P.params, (VmapCall("v", P, in_axes, None, tuple(P.params)),), RED.format("v")), new_kinds


def wrap_repeat(P, kinds):
    return Prog(f"repeat[{P.name}]", P.params, (VmapCall("r", P, None, 2, tuple(P.params), True), Site("y", "normal", (RED.format("r"), "1.0"))), "y"), kinds


def wrap_cond(P, kinds):
    if kinds.count("s") != 1 or P.params[kinds.index("s")] != "a" or "f" in kinds:
        return None
    P2 = _shift(P)
    params = tuple(P.params) + ("flag",)
    return Prog(f"cond[{P.name}]", params, (CondCall("c", P, P2, "flag", tuple(P.params)),), RED.format("c")), tuple(kinds) + ("f",)


def wrap_scan(P, kinds):
    if kinds != ("s",):
        return None
    step = Prog(f"step[{P.name}]", ("c", "x"), (Call("p", P, ("c + x",)),), f"({RED.format('p')}, {RED.format('p')})")
    return Prog(f"scan[{P.name}]", ("a", "xs"), (ScanCall("s", step, 2, "a", "xs"),), "s[0]"), ("s", "x")


WRAPPERS = {"call": wrap_call, "vmap": wrap_vmap, "repeat": wrap_repeat, "cond": wrap_cond, "scan": wrap_scan}


def arg_values(kinds, variant=0):
    f32 = np.float32
    vals = {
        "s": [f32(0.3), f32(-1.2)],
        "v": [np.asarray([0.1, 0.7], np.float32), np.asarray([0.5, -0.4], np.float32)],
        "m": [np.asarray([[0.1, 0.7], [0.5, -0.4]], np.float32), np.asarray([[0.5, -0.4], [0.1, 0.7]], np.float32)],
        "f": [np.bool_(True), np.bool_(False)],
        "x": [np.asarray([0.5, -0.4], np.float32), np.asarray([1.1, 0.1], np.float32)],
    }
    return tuple(vals[k][variant % 2] for k in kinds)


def _leaves(prog, kinds):
    """Leaves of the full simulate tree (static product of menu sizes; vector sites counted per element)."""
    n = 1

    def count(p, mult):
        nonlocal n
        for st in p.body:
            if isinstance(st, Site):
                k = 2 if (p.name.startswith("vecscale") and st.addr == "x") else 1
                n *= F.MENU_SIZE[st.dist] ** (mult * k)
            elif isinstance(st, Call):
                count(st.prog, mult)
            elif isinstance(st, VmapCall):
                lanes = st.axis_size or 2
                if isinstance(st.callee, str):
                    n *= F.MENU_SIZE[st.callee] ** (mult * lanes)
                else:
                    count(st.callee, mult * lanes)
            elif isinstance(st, ScanCall):
                count(st.prog, mult * st.length)
            elif isinstance(st, CondCall):
                count(st.pt, mult)
                count(st.pf, mult)

    count(prog, 1)
    return n


_CACHE = {}


def generated(max_leaves=3000, depth=2):
    """name -> (Prog, [args tuple, alt args tuple], leaves)"""
    key = (max_leaves, depth)
    if key in _CACHE:
        return _CACHE[key]
    level = [(F.FAMILY[b][0], ("s",)) for b in BODIES]
    out = {}
    for d in range(depth):
        nxt = []
        for P, kinds in level:
            for wname, w in WRAPPERS.items():
                r = w(P, kinds)
                if r is None:
                    continue
                Q, qk = r
                nl = _leaves(Q, qk)
                if nl > max_leaves:
                    continue
                nxt.append((Q, qk))
                out[Q.name] = (Q, [arg_values(qk, 0), arg_values(qk, 1)], nl)
        level = nxt
    _CACHE[key] = out
    return out
