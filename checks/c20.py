"""C20  The exact state-space baselines are exact.

A. Discrete HMM (genjax.extras.state_space, probability-space parameters, rows = from-state):
   K in {1,2,3} states x M in {1,2,3} symbols x T in {1..3} (quick) / {1..4} (thorough);
   parameter sets = product(initial distributions, transition matrices, emission matrices)
   built from a small grid of probability rows INCLUDING sparse rows (exact zeros -> -inf in
   log space), permutation (deterministic) transition matrices and non-uniform initial
   distributions; ALL M^T observation sequences (including impossible ones, p(y) = 0).
     forward_filter            filtering distributions (every t whose prefix has p > 0) and the
                               log marginal likelihood (== -inf for impossible sequences)
     compute_sequence_log_prob for ALL K^T state sequences (vmapped over the state sequences)
     discrete_hmm              step model iterated with `assess`, carry = its own return value
                               (as sample_hmm_dataset / rejuvenation_smc use it), ALL K^T x M^T
     forward_filtering_backward_sampling (forward_filter -> backward_sample ->
                               compute_sequence_log_prob) under jit(seed(.)): the FULL choice
                               tree of the T categorical draws of backward_sample (menu = full
                               support, probabilities = float64 softmax of the logits the
                               library handed to the sampler); sum of leaf probabilities per
                               returned state sequence == exact posterior over all K^T sequences
   Oracle: brute force over all K^T (and K^t prefix) state sequences in float64 NumPy.
B. Linear-Gaussian SSM: (d_state, d_obs) in {1,2,3}^2, T as above, 6 structured parameter sets
   per shape (non-identity / non-symmetric / unstable / triangular / cyclic A, non-square,
   rank-deficient and partially observing C, non-diagonal Q / R / P0, non-zero initial mean)
   plus mix-and-match recombinations of their components (6 Latin mixes quick, all 6^4
   thorough), 3 observation sequences each (moments are affine in y):
     kalman_filter   means, covariances, log marginal likelihood
     kalman_smoother means, covariances
     linear_gaussian step model iterated with `assess` on 2 state sequences x 3 observation
                     sequences
   Oracle: the dense joint Gaussian over (x_1..x_T, y_1..y_T) assembled from the noise
   representation x = G eps in float64 NumPy, conditioned by linear solves.
"""

from __future__ import annotations

import itertools
import os
import time

import numpy as np

from mc import harness as H

PROP = "C20"

# ------------------------------------------------------------------ HMM parameter grid

ROWS = {
    1: [(1.0,)],
    2: [(0.5, 0.5), (0.2, 0.8), (0.9, 0.1), (1.0, 0.0), (0.0, 1.0)],
    3: [(0.25, 0.25, 0.5), (0.2, 0.5, 0.3), (0.6, 0.1, 0.3), (1.0, 0.0, 0.0), (0.0, 0.6, 0.4), (0.7, 0.0, 0.3), (0.0, 0.0, 1.0)],
}


def hmm_matrices(K, n, strides, every=1):
    """K x n row-stochastic matrices with rows from ROWS[n] (cyclic picks), plus, for square
    matrices, the identity and the cyclic shift (fully deterministic, maximally sparse)."""
    R = ROWS[n]
    out = []
    for s in strides:
        for i in range(0, len(R), every):
            m = tuple(R[(i + s * j) % len(R)] for j in range(K))
            if m not in out:
                out.append(m)
    if K == n and K >= 2:
        eye = tuple(tuple(1.0 if a == b else 0.0 for b in range(K)) for a in range(K))
        shift = tuple(tuple(1.0 if b == (a + 1) % K else 0.0 for b in range(K)) for a in range(K))
        for m in (eye, shift):
            if m not in out:
                out.append(m)
    return out


def hmm_params(K, M, tier):
    """[(initial, transition, emission)] as nested tuples of Python floats."""
    R = ROWS[K]
    if tier == "quick":
        inits = [R[i] for i in (1, 4) if i < len(R)] or [R[0]]
        trans = hmm_matrices(K, K, (1,))
        emis = hmm_matrices(K, M, (1,), every=2)
    else:
        inits = [R[i] for i in (0, 1, 3, 4, 6) if i < len(R)]
        trans = hmm_matrices(K, K, (1, 2))
        emis = hmm_matrices(K, M, (1,) if (K, M) == (3, 3) else (1, 2))
    return [(i, t, e) for i in inits for t in trans for e in emis]


def tree_nodes(K, T):
    return sum(K**t for t in range(T + 1))


def all_seqs(n, T):
    return np.asarray(list(itertools.product(range(n), repeat=T)), np.int64).reshape(-1, T)


def joint_probs(S, obs, ip, tm, em):
    """p(x_1..x_t, y_1..y_t) for every row of S (brute force table, float64)."""
    p = ip[S[:, 0]] * em[S[:, 0], obs[0]]
    for t in range(1, S.shape[1]):
        p = p * tm[S[:, t - 1], S[:, t]] * em[S[:, t], obs[t]]
    return p


def safe_log(p):
    with np.errstate(divide="ignore"):
        return np.log(np.asarray(p, np.float64))


# ------------------------------------------------------------------ jitted library functions

_J = {}


def _hmm_fns():
    if "ff" not in _J:
        import jax
        import jax.numpy as jnp
        from genjax import seed as gseed
        from genjax.extras.state_space import (
            forward_filter,
            forward_filtering_backward_sampling,
            compute_sequence_log_prob,
            discrete_hmm,
        )

        def hmm_joint(states, obs, ip, tm, em):
            T = states.shape[0]
            carry = (jnp.array(0), jnp.array(0), ip, tm, em)  # dummy state, t = 0, parameters
            tot = jnp.float32(0.0)
            for t in range(T):
                lp, carry = discrete_hmm.assess({"state": states[t], "obs": obs[t]}, *carry)
                tot = tot + lp
            return tot, carry[0], carry[1]

        _J["ff"] = jax.jit(forward_filter)
        _J["ffbs"] = jax.jit(gseed(forward_filtering_backward_sampling))
        _J["slp"] = jax.jit(jax.vmap(compute_sequence_log_prob, in_axes=(0, None, None, None, None)))
        _J["joint"] = jax.jit(jax.vmap(hmm_joint, in_axes=(0, None, None, None, None)))
    return _J


def _lg_fns():
    if "kf" not in _J:
        import jax
        import jax.numpy as jnp
        from genjax.extras.state_space import kalman_filter, kalman_smoother, linear_gaussian

        def lg_joint(xs, ys, m0, P0, A, Q, C, R):
            T = xs.shape[0]
            carry = (jnp.zeros_like(m0), jnp.array(0), m0, P0, A, Q, C, R)
            tot = jnp.float32(0.0)
            for t in range(T):
                lp, carry = linear_gaussian.assess({"state": xs[t], "obs": ys[t]}, *carry)
                tot = tot + lp
            return tot, carry[0], carry[1]

        _J["kf"] = jax.jit(kalman_filter)
        _J["ks"] = jax.jit(kalman_smoother)
        _J["lgj"] = jax.jit(lg_joint)
    return _J


def _clear():
    try:
        from genjax.core import handler_stack

        handler_stack.clear()
    except Exception:
        pass


def _err(ex):
    return f"{type(ex).__name__}: {str(ex)[:400]}"


# ------------------------------------------------------------------ A. discrete HMM


def _cat_menu(ev, lane, ctx):
    from mc import tree

    if ev.name != "Categorical":
        raise tree.HarnessError(f"unexpected sampler {ev.name} in backward_sample")
    logits = ev.kwargs["logits"] if "logits" in ev.kwargs else ev.args[0]
    logits = np.asarray(logits, np.float64).reshape(-1)
    if not np.any(np.isfinite(logits)) or np.any(np.isnan(logits)) or np.any(logits == np.inf):
        # the explorer cannot branch on an ill-defined pmf; reported by the caller
        raise _BadLogits(logits)
    m = np.max(logits[np.isfinite(logits)])
    p = np.exp(logits - m)
    p = p / p.sum()
    return [(np.int32(k), float(p[k]), str(k)) for k in range(len(p))]


class _BadLogits(Exception):
    pass


def _hmm_one(res, item, tier, pidx, par, K, M, T, key, first):
    import jax.numpy as jnp
    from mc import env, tree

    F = _hmm_fns()
    ip32, tm32, em32 = (np.asarray(a, np.float32) for a in par)
    ip, tm, em = (np.asarray(a, np.float64) for a in (ip32, tm32, em32))
    jip, jtm, jem = jnp.asarray(ip32), jnp.asarray(tm32), jnp.asarray(em32)
    S = all_seqs(K, T)
    jS = jnp.asarray(S, jnp.int32)
    base = {"item": str(item), "tier": tier, "kind": "hmm", "K": K, "M": M, "T": T, "param_index": pidx, "initial_probs": ip32, "transition_matrix": tm32, "emission_matrix": em32, "size": [K, M, T, pidx]}

    for obs in itertools.product(range(M), repeat=T):
        det = dict(base, observations=list(obs))
        jobs = jnp.asarray(obs, jnp.int32)
        pj = joint_probs(S, obs, ip, tm, em)  # (K^T,)
        py = float(pj.sum())
        ref_lm = float(safe_log(py))
        res.states += 1
        res.case("hmm", K, M, T, par, obs)

        # ---- forward_filter
        try:
            alpha, lm = F["ff"](jobs, jip, jtm, jem)
            alpha, lm = np.asarray(alpha, np.float64), np.asarray(lm, np.float64)
            res.evaluations += 1
            res.transitions += 1
        except Exception as ex:
            _clear()
            res.violate(PROP, "forward_filter:raises", error=_err(ex), **det)
            alpha = None
        if alpha is not None:
            if alpha.shape != (T, K) or lm.shape != ():
                res.violate(PROP, "forward_filter:shape", alpha_shape=list(alpha.shape), log_marginal_shape=list(lm.shape), **det)
            else:
                if not H.close(lm, ref_lm):
                    res.violate(PROP, "forward_filter:log-marginal", log_marginal=lm, reference=ref_lm, **det)
                for t in range(T):
                    St = all_seqs(K, t + 1)
                    pp = joint_probs(St, obs[: t + 1], ip, tm, em)
                    tot = pp.sum()
                    if tot <= 0.0:
                        res.notes["filtering_rows_undefined_skipped"] = res.notes.get("filtering_rows_undefined_skipped", 0) + 1
                        continue
                    f = np.bincount(St[:, -1], weights=pp, minlength=K) / tot
                    pos = f > 0
                    with np.errstate(over="ignore", invalid="ignore"):
                        ok = H.close(np.exp(alpha[t]), f, rtol=2e-4, atol=1e-6) and H.close(alpha[t][pos], np.log(f[pos]))
                    if not ok:
                        res.violate(PROP, "forward_filter:filtering", t=t, log_alpha_t=alpha[t], reference_probs=f, **det)
                        break
                res.validated += 1

        # ---- compute_sequence_log_prob, all K^T state sequences
        ref_lj = safe_log(pj)
        try:
            v = np.asarray(F["slp"](jS, jobs, jip, jtm, jem), np.float64)
            res.evaluations += 1
            res.transitions += 1
            if v.shape != ref_lj.shape:
                res.violate(PROP, "sequence_log_prob:shape", shape=list(v.shape), **det)
            else:
                bad = [i for i in range(len(v)) if not H.close(v[i], ref_lj[i])]
                if bad:
                    i = bad[0]
                    res.violate(PROP, "sequence_log_prob", states=S[i], log_prob=v[i], reference=ref_lj[i], n_bad=len(bad), **det)
                res.validated += len(v)
                res.states += len(v)
        except Exception as ex:
            _clear()
            res.violate(PROP, "sequence_log_prob:raises", error=_err(ex), **det)

        # ---- discrete_hmm iterated with assess
        try:
            v, last, tix = F["joint"](jS, jobs, jip, jtm, jem)
            v, last, tix = np.asarray(v, np.float64), np.asarray(last), np.asarray(tix)
            res.evaluations += 1
            res.transitions += 1
            bad = [i for i in range(len(S)) if not H.close(v[i], ref_lj[i])]
            if bad:
                i = bad[0]
                res.violate(PROP, "discrete_hmm:joint", states=S[i], assess_sum=v[i], reference=ref_lj[i], n_bad=len(bad), **det)
            if not (np.array_equal(last.astype(np.int64), S[:, -1]) and np.all(tix == T)):
                res.violate(PROP, "discrete_hmm:carry", returned_state=last, returned_time=tix, **det)
            res.validated += len(S)
            res.states += len(S)
        except Exception as ex:
            _clear()
            res.violate(PROP, "discrete_hmm:raises", error=_err(ex), **det)

        # ---- FFBS: full choice tree of backward_sample's draws
        if py <= 0.0:
            res.notes["impossible_observation_sequences"] = res.notes.get("impossible_observation_sequences", 0) + 1
            continue
        post = pj / py
        acc = np.zeros(len(S))
        index = {tuple(s): i for i, s in enumerate(S.tolist())}
        problems = []

        def run(D):
            out, evs = env.run_recorded(F["ffbs"], key, jobs, jip, jtm, jem, mode="script", decisions=D)
            res.evaluations += 1
            return out, evs

        def on_leaf(leaf):
            res.states += 1
            evs = leaf.events
            st = tuple(int(x) for x in np.asarray(leaf.out.states).reshape(-1))
            draws = [int(lab) for _k, _l, lab in leaf.path]
            if len(evs) != T or any(e.name != "Categorical" or np.shape(e.value) != () for e in evs) or len(st) != T or st not in index:
                problems.append(("backward_sample:events", dict(events=[e.brief() for e in evs][:5], states=list(st))))
                return
            # the draws are x_T, x_{T-1}, ..., x_1 in runtime order; every lane was decided
            if list(st) != draws[::-1]:
                problems.append(("backward_sample:states-not-the-draws", dict(states=list(st), draws_in_runtime_order=draws)))
            acc[index[st]] += leaf.prob
            lp = float(np.asarray(leaf.out.log_prob, np.float64))
            if not H.close(lp, ref_lj[index[st]]):
                problems.append(("ffbs:log_prob", dict(states=list(st), log_prob=lp, reference=ref_lj[index[st]])))
            if not np.array_equal(np.asarray(leaf.out.observations).reshape(-1), np.asarray(obs)):
                problems.append(("ffbs:observations", dict(returned=np.asarray(leaf.out.observations))))
            res.validated += 1

        try:
            stt = tree.explore(run, _cat_menu, on_leaf, max_leaves=100000, check_determinism=first[0])
            first[0] = False
        except _BadLogits as ex:
            res.violate(PROP, "backward_sample:logits-ill-defined", logits=np.asarray(ex.args[0]), **det)
            continue
        except tree.HarnessError:
            raise
        except Exception as ex:
            _clear()
            res.violate(PROP, "backward_sample:raises", error=_err(ex), **det)
            continue
        res.transitions += stt.nodes
        res.notes["ffbs_trees"] = res.notes.get("ffbs_trees", 0) + 1
        res.notes["ffbs_leaves"] = res.notes.get("ffbs_leaves", 0) + stt.leaves
        seen = set()
        for sig, d in problems:
            if sig not in seen:
                seen.add(sig)
                res.violate(PROP, sig, **d, **det)
        if abs(stt.total_prob - 1.0) > 1e-6:
            res.violate(PROP, "backward_sample:tree-mass", total=stt.total_prob, **det)
        elif not H.close(acc, post, rtol=2e-4, atol=1e-6):
            i = int(np.argmax(np.abs(acc - post)))
            res.violate(PROP, "backward_sample:distribution", worst_sequence=S[i], sampler_probability=acc[i], posterior=post[i], sampler_distribution=acc, exact_posterior=post, **det)
        if len(res.samples) < 2 and (K >= 2 or T == 1):
            res.add_sample({"kind": "hmm", "K": K, "M": M, "T": T, "initial_probs": ip32, "transition_matrix": tm32, "emission_matrix": em32, "observations": list(obs), "log_marginal": lm if alpha is not None else None, "reference_log_marginal": ref_lm, "ffbs_leaves": stt.leaves, "ffbs_distribution": acc, "exact_posterior": post})


def work_hmm(item, tier, seed, res):
    import jax
    from mc import env

    env.install()
    _kind, K, M, T, lo, hi = item
    pars = hmm_params(K, M, tier)[lo:hi]
    key = jax.random.key(seed * 15485863 + 1000 * K + 100 * M + T)
    first = [True]
    for j, par in enumerate(pars):
        _hmm_one(res, item, tier, lo + j, par, K, M, T, key, first)
    if not res.samples:
        res.add_sample({"kind": "hmm", "K": K, "M": M, "T": T, "params": len(pars), "note": "all cases of this item compared equal"})


# ------------------------------------------------------------------ B. linear-Gaussian SSM


def _mat(r, c, a, b):
    i = np.arange(r, dtype=np.float64)[:, None] + 1
    j = np.arange(c, dtype=np.float64)[None, :] + 1
    return np.sin(a * i + b * j + 0.3 * i * j)


def _spd(n, a, scale, off):
    B = _mat(n, n, a, 0.7)
    return scale * (np.eye(n) + off * (B @ B.T) / n)


def lg_components(ds, do):
    """6 structured choices for each of A, C, Q, R, (m0, P0)."""
    I = np.eye(ds)
    up = np.diag(np.full(ds, 1.1)) + 0.4 * np.eye(ds, k=1)
    if ds > 1:
        up[-1, 0] = -0.3
    low = np.diag(np.full(ds, 0.5)) - 0.6 * np.eye(ds, k=-1)
    cyc = 0.8 * np.roll(np.eye(ds), 1, axis=1) + (0.1 if ds > 1 else 0.0)
    A = [0.9 * I, 0.6 * _mat(ds, ds, 1.1, 0.5) + 0.3 * I, up, low, cyc, -0.7 * I + 0.2 * _mat(ds, ds, 2.9, 1.7)]
    Cpart = _mat(do, ds, 1.9, 0.6)
    if ds > 1:
        Cpart[:, 0] = 0.0  # first state coordinate never observed directly
    Crank1 = np.outer(0.4 * (np.arange(do) + 1), (-1.0) ** np.arange(ds))
    C = [np.eye(do, ds), _mat(do, ds, 0.7, 1.3), Cpart, 1.5 * _mat(do, ds, 2.3, 0.4), Crank1, _mat(do, ds, 3.1, 0.2)]
    Q = [0.5 * I, _spd(ds, 0.9, 0.4, 0.8), _spd(ds, 2.1, 0.05, 0.5), _spd(ds, 1.2, 2.0, 0.6), np.diag([0.2, 0.6, 1.0][:ds]), _spd(ds, 0.5, 0.3, 1.0)]
    Io = np.eye(do)
    R = [0.3 * Io, _spd(do, 1.7, 0.5, 0.8), _spd(do, 0.4, 2.0, 0.7), _spd(do, 0.8, 0.05, 0.5), _spd(do, 2.6, 0.7, 0.9), _spd(do, 1.4, 1.0, 0.3)]
    m0 = [np.zeros(ds), np.array([0.5, -1.0, 0.8])[:ds], np.array([-0.7, 0.2, 1.5])[:ds], np.array([1.2, 0.4, -0.9])[:ds], np.array([2.0, -2.0, 1.0])[:ds], np.array([0.1, 0.2, 0.3])[:ds]]
    P0 = [I, _spd(ds, 0.3, 1.5, 0.6), _spd(ds, 1.5, 0.2, 0.9), _spd(ds, 2.2, 5.0, 0.4), _spd(ds, 0.6, 1.0, 0.7), _spd(ds, 1.9, 0.1, 0.8)]
    return A, C, Q, R, m0, P0


def lg_param_ids(tier):
    ids = [(i, i, i, i, i) for i in range(6)]
    if tier == "quick":
        ids += [(i, (i + 1) % 6, (i + 2) % 6, (i + 3) % 6, (i + 4) % 6) for i in range(6)]
    else:
        for a, c, q, r in itertools.product(range(6), repeat=4):
            t = (a, c, q, r, (a + 2 * c + 3 * q + 4 * r) % 6)
            if t not in ids:
                ids.append(t)
    return ids


def lg_obs(T, do):
    t = np.arange(T, dtype=np.float64)[:, None]
    i = np.arange(do, dtype=np.float64)[None, :]
    return [np.zeros((T, do)), 0.8 * np.sin(1.3 * t + 0.9 * i + 0.4) + 0.2 * t, -1.5 + 0.7 * ((t + 2 * i) % 3) - 0.25 * i * t]


def lg_states(T, ds):
    t = np.arange(T, dtype=np.float64)[:, None]
    i = np.arange(ds, dtype=np.float64)[None, :]
    return [0.6 * np.cos(0.8 * t + 1.1 * i), 0.3 * t - 0.5 * i + 0.2]


def lg_dense(T, m0, P0, A, Q, C, R):
    """Mean and covariance blocks of the joint Gaussian over (x_1..x_T, y_1..y_T)."""
    ds, do = A.shape[0], C.shape[0]
    G = np.zeros((T * ds, T * ds))
    for t in range(T):
        for s in range(t + 1):
            G[t * ds : (t + 1) * ds, s * ds : (s + 1) * ds] = np.linalg.matrix_power(A, t - s)
    N = np.zeros((T * ds, T * ds))
    for t in range(T):
        N[t * ds : (t + 1) * ds, t * ds : (t + 1) * ds] = P0 if t == 0 else Q
    e = np.zeros(T * ds)
    e[:ds] = m0
    mx = G @ e
    Sxx = G @ N @ G.T
    Ct = np.kron(np.eye(T), C)
    my = Ct @ mx
    Sxy = Sxx @ Ct.T
    Syy = Ct @ Sxx @ Ct.T + np.kron(np.eye(T), R)
    return mx, my, Sxx, Sxy, Syy


def mvn_logpdf(z, mean, cov):
    L = np.linalg.cholesky(cov)
    w = np.linalg.solve(L, z - mean)
    return float(-0.5 * (w @ w) - np.sum(np.log(np.diag(L))) - 0.5 * len(z) * np.log(2 * np.pi))


def mclose(a, b, tol=3e-4):
    """Norm-wise comparison of vectors / matrices (float32 library vs float64 oracle)."""
    a = np.asarray(a, np.float64)
    b = np.asarray(b, np.float64)
    if a.shape != b.shape or not np.all(np.isfinite(a)):
        return False
    return bool(np.all(np.abs(a - b) <= tol * (np.abs(b) + np.max(np.abs(b))) + 1e-6))


def work_lg(item, tier, seed, res):
    import jax.numpy as jnp

    _kind, ds, do, T = item
    F = _lg_fns()
    comps = lg_components(ds, do)
    f32 = lambda a: np.asarray(a, np.float32)
    for pid in lg_param_ids(tier):
        a, c, q, r, p = pid
        A32, C32, Q32, R32, m32, P32 = f32(comps[0][a]), f32(comps[1][c]), f32(comps[2][q]), f32(comps[3][r]), f32(comps[4][p]), f32(comps[5][p])
        A, C, Q, R, m0, P0 = (np.asarray(x, np.float64) for x in (A32, C32, Q32, R32, m32, P32))
        jpar = tuple(jnp.asarray(x) for x in (m32, P32, A32, Q32, C32, R32))
        mx, my, Sxx, Sxy, Syy = lg_dense(T, m0, P0, A, Q, C, R)
        base = {"item": str(item), "tier": tier, "kind": "lg", "d_state": ds, "d_obs": do, "T": T, "param_id": list(pid), "initial_mean": m32, "initial_cov": P32, "A": A32, "Q": Q32, "C": C32, "R": R32, "size": [ds, do, T, 0 if len(set(pid)) == 1 else 1, list(pid)]}
        for oi, y in enumerate(lg_obs(T, do)):
            y32 = f32(y)
            y = np.asarray(y32, np.float64)
            yv = y.reshape(-1)
            det = dict(base, observations=y32)
            jy = jnp.asarray(y32)
            res.states += 1
            res.case("lg", ds, do, T, pid, oi)
            # reference filtering / smoothing moments by conditioning the dense joint
            fm, fc, sm, sc = [], [], [], []
            for t in range(T):
                ix = slice(t * ds, (t + 1) * ds)
                for upto, means, covs in (((t + 1) * do, fm, fc), (T * do, sm, sc)):
                    Sy = Syy[:upto, :upto]
                    Sx = Sxy[ix, :upto]
                    means.append(mx[ix] + Sx @ np.linalg.solve(Sy, yv[:upto] - my[:upto]))
                    covs.append(Sxx[ix, ix] - Sx @ np.linalg.solve(Sy, Sx.T))
            fm, fc, sm, sc = (np.asarray(v) for v in (fm, fc, sm, sc))
            ref_lm = mvn_logpdf(yv, my, Syy)
            try:
                gm, gc, glm = (np.asarray(v, np.float64) for v in F["kf"](jy, *jpar))
                res.evaluations += 1
                res.transitions += 1
                if gm.shape != fm.shape or gc.shape != fc.shape or glm.shape != ():
                    res.violate(PROP, "kalman_filter:shape", shapes=[list(gm.shape), list(gc.shape), list(glm.shape)], **det)
                else:
                    if not mclose(gm, fm):
                        res.violate(PROP, "kalman_filter:mean", filtered_means=gm, reference=fm, **det)
                    if not all(mclose(gc[t], fc[t]) for t in range(T)):
                        res.violate(PROP, "kalman_filter:cov", filtered_covs=gc, reference=fc, **det)
                    if not H.close(glm, ref_lm):
                        res.violate(PROP, "kalman_filter:log-marginal", log_marginal=glm, reference=ref_lm, **det)
                    res.validated += 1
            except Exception as ex:
                _clear()
                res.violate(PROP, "kalman_filter:raises", error=_err(ex), **det)
                glm = None
            try:
                gsm, gsc = (np.asarray(v, np.float64) for v in F["ks"](jy, *jpar))
                res.evaluations += 1
                res.transitions += 1
                if gsm.shape != sm.shape or gsc.shape != sc.shape:
                    res.violate(PROP, "kalman_smoother:shape", shapes=[list(gsm.shape), list(gsc.shape)], **det)
                else:
                    if not mclose(gsm, sm):
                        res.violate(PROP, "kalman_smoother:mean", smoothed_means=gsm, reference=sm, **det)
                    if not all(mclose(gsc[t], sc[t]) for t in range(T)):
                        res.violate(PROP, "kalman_smoother:cov", smoothed_covs=gsc, reference=sc, **det)
                    res.validated += 1
            except Exception as ex:
                _clear()
                res.violate(PROP, "kalman_smoother:raises", error=_err(ex), **det)
            # step model iterated with assess == dense joint density
            Sj = np.block([[Sxx, Sxy], [Sxy.T, Syy]])
            mj = np.concatenate([mx, my])
            for xi, x in enumerate(lg_states(T, ds)):
                x32 = f32(x)
                ref = mvn_logpdf(np.concatenate([np.asarray(x32, np.float64).reshape(-1), yv]), mj, Sj)
                res.states += 1
                try:
                    v, last, tix = F["lgj"](jnp.asarray(x32), jy, *jpar)
                    v = float(np.asarray(v, np.float64))
                    res.evaluations += 1
                    res.transitions += 1
                    if not H.close(v, ref):
                        res.violate(PROP, "linear_gaussian:joint", states=x32, assess_sum=v, reference=ref, **det)
                    if not (np.array_equal(np.asarray(last), x32[-1]) and int(np.asarray(tix)) == T):
                        res.violate(PROP, "linear_gaussian:carry", returned_state=np.asarray(last), returned_time=np.asarray(tix), **det)
                    res.validated += 1
                except Exception as ex:
                    _clear()
                    res.violate(PROP, "linear_gaussian:raises", error=_err(ex), states=x32, **det)
            if len(res.samples) < 1 and oi == 1 and len(set(pid)) == 1 and pid[0] == 1:
                res.add_sample({"kind": "lg", "d_state": ds, "d_obs": do, "T": T, "A": A32, "C": C32, "Q": Q32, "R": R32, "initial_mean": m32, "observations": y32, "log_marginal": glm, "reference_log_marginal": ref_lm, "reference_smoothed_mean_t0": sm[0]})
    if not res.samples:
        res.add_sample({"kind": "lg", "d_state": ds, "d_obs": do, "T": T, "note": "all cases of this item compared equal"})


# ------------------------------------------------------------------ runner interface


def work(item, tier, seed):
    res = H.Result()
    if item[0] == "hmm":
        work_hmm(item, tier, seed, res)
    else:
        work_lg(item, tier, seed, res)
    return res


def t_range(tier):
    return (1, 2, 3) if tier == "quick" else (1, 2, 3, 4)


def items(tier):
    its = []
    budget = 20000 if tier == "quick" else 100000  # scripted FFBS executions per work item
    for K in (3, 2, 1):
        for M in (3, 2, 1):
            n = len(hmm_params(K, M, tier))
            for T in reversed(t_range(tier)):
                cost = (M**T) * (tree_nodes(K, T) + 3)
                step = max(1, budget // cost)
                for lo in range(0, n, step):
                    its.append(("hmm", K, M, T, lo, min(n, lo + step)))
    for ds in (1, 2, 3):
        for do in (1, 2, 3):
            for T in t_range(tier):
                its.append(("lg", ds, do, T))
    # heavy items first so the pool drains evenly
    its.sort(key=lambda it: -((it[5] - it[4]) * (it[2] ** it[3]) * tree_nodes(it[1], it[3]) if it[0] == "hmm" else (2000 if tier == "quick" else 40000)))
    return its


def main(tier, seed):
    t0 = time.time()
    its = items(tier)
    only = os.environ.get("VERIF_ONLY")
    if only:
        its = [it for it in its if only in str(it)]
    res, errors = H.fan_out("checks.c20", "work", its, tier, seed)
    # report the smallest failing input of every signature
    res.violations.sort(key=lambda v: (v.sig, v.detail.get("size") or []))
    Ts = t_range(tier)
    n_hmm = {f"K{K}M{M}": len(hmm_params(K, M, tier)) for K in (1, 2, 3) for M in (1, 2, 3)}
    rule = (
        f"HMM: K in 1..3 x M in 1..3 x T in {list(Ts)} x parameter sets product(initial rows, transition matrices, emission matrices) from a row grid with "
        f"exact zeros and permutation matrices ({n_hmm}) x ALL M^T observation sequences: forward_filter (filtering rows, log marginal), "
        "compute_sequence_log_prob and discrete_hmm-iterated-assess on ALL K^T state sequences, and the full choice tree of backward_sample's T categorical "
        "draws inside jit(seed(forward_filtering_backward_sampling)) vs brute force over K^T; "
        f"LGSSM: (d_state,d_obs) in 1..3^2 x T in {list(Ts)} x {len(lg_param_ids(tier))} parameter sets x 3 observation sequences (x 2 state sequences for the joint): "
        "kalman_filter / kalman_smoother / linear_gaussian-iterated-assess vs the dense joint Gaussian in float64; states = cases + tree leaves, transitions = real jitted calls + tree nodes"
    )
    assumptions = [
        "filtering rows whose observation prefix has probability 0 (conditional undefined) and FFBS on impossible observation sequences are skipped and counted; the log marginal of impossible sequences must be -inf",
        "the categorical sampler is taken to realise softmax(logits) of the logits the library hands to it (TFP trusted base); leaf probabilities come from those logits in float64",
        "continuous observations / states of the linear-Gaussian model are 3 (x2) fixed sequences per parameter set: moments are affine and densities quadratic in them",
        "float32 library vs float64 oracle: rtol 2e-4 (+2e-4 abs) on log quantities, 3e-4 norm-wise on Gaussian moments",
    ]
    return H.finish(PROP, tier, seed, "model_checking", res, errors, t0, rule, assumptions, {"work_items": len(its)})


def replay(path):
    import json

    j = json.load(open(path))
    print(json.dumps(j, indent=1)[:4000])
    d = j["detail"]
    os.environ["VERIF_ONLY"] = d.get("item", "")
    tier = d.get("tier", "quick")
    return main(tier, int(os.environ.get("VERIF_SEED", "0") or 0))
