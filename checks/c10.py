"""C10  SMC particles are properly weighted; the evidence estimate is unbiased.

Model: a 2-state HMM step model (categorical latent x | prev, categorical observation y | x),
its own prior as proposal or custom init / extension proposals.  Observation sequences: ALL of
{0,1}^T.  Pipelines (each returns every intermediate ParticleCollection):
  init | init(custom proposal) | init->extend | init->extend(custom proposal) |
  init->resample(categorical|systematic)->extend | init->rejuvenate(mh)->extend->resample |
  rejuvenation_smc with / without mh kernel, with a transition proposal (ESS-triggered
  resampling inside lax.cond; the explorer discovers the draws of the taken branch dynamically).
The FULL choice tree of the pipeline's randomness is explored under jit(seed(pipeline)):
per-lane proposal draws, ancestor draws (pmf = the normalised weights), and accept /
systematic-offset uniforms partitioned into their intervals of constant behaviour by probing.
Leaf oracle, stage by stage: log_weights[i] == previous log weight + log p(new choices,
obs | parent state) - log q(new choices) from the reference tables; resampling resets the
weights, copies whole particles and keeps log_marginal_likelihood(); rejuvenation leaves
weights and the estimate untouched and returns coherent traces.
Tree oracle: sum_leaves P * exp(log_marginal_likelihood()) == p_ref(observations so far)
(brute force over all state sequences) after EVERY stage, and
sum P * Zhat * estimate(1[x=1]) == sum_x p(x, obs) 1[x_last=1].
"""

from __future__ import annotations

import itertools
import os
import time

import numpy as np

from mc import harness as H

PROP = "C10"

T_LOGITS = np.log(np.asarray([[0.7, 0.3], [0.2, 0.8]]))  # transition rows (prev -> x)
E_LOGITS = np.log(np.asarray([[0.9, 0.1], [0.35, 0.65]]))  # emission rows (x -> y)
Q_INIT = np.log(np.asarray([[0.6, 0.4], [0.25, 0.75]]))  # custom proposal q(x | y)
Q_EXT = np.log(np.asarray([[[0.5, 0.5], [0.3, 0.7]], [[0.8, 0.2], [0.1, 0.9]]]))  # q(x | y, prev)
PREV0 = 0
# "_aux" pipelines: a second latent s ~ categorical(S_LOGITS[x]) per step that the custom proposals do NOT
# propose (partial proposals: the model's own prior fills s in).  s influences nothing else, so p(y) and
# the reference particle weights are unchanged - only the trace scores gain the term log p(s | x).
S_LOGITS = np.log(np.asarray([[0.55, 0.45], [0.15, 0.85]]))
# a variant with a hard constraint: state 0 never emits symbol 1 (whole collections can die)
with np.errstate(divide="ignore"):
    E_SPARSE = np.log(np.asarray([[1.0, 0.0], [0.35, 0.65]]))
_E_DENSE = E_LOGITS


def _use_tables(sparse):
    """Select the emission table used by the model, the reference and the stage oracle."""
    global E_LOGITS
    E_LOGITS = E_SPARSE if sparse else _E_DENSE


def _model(nested=False, aux=False):
    import jax.numpy as jnp
    from genjax import gen, categorical

    TL, EL, QI, QE = (jnp.asarray(a, jnp.float32) for a in (T_LOGITS, E_LOGITS, Q_INIT, Q_EXT))
    SL = jnp.asarray(S_LOGITS, jnp.float32)

    @gen
    def step_aux(prev):
        x = categorical(TL[prev]) @ "x"
        s = categorical(SL[x]) @ "s"
        y = categorical(EL[x]) @ "y"
        return x

    @gen
    def step(prev):
        x = categorical(TL[prev]) @ "x"
        y = categorical(EL[x]) @ "y"
        return x

    @gen
    def init_prop(constraints, prev):
        x = categorical(QI[constraints["y"]]) @ "x"
        return x

    @gen
    def ext_prop(constraints, old_choices, prev):
        x = categorical(QE[constraints["y"], prev]) @ "x"
        return x

    # the same model with latent and observation inside a sub-call (shared address "sub")
    @gen
    def inner(prev):
        x = categorical(TL[prev]) @ "x"
        y = categorical(EL[x]) @ "y"
        return x

    @gen
    def step_n(prev):
        s = inner(prev) @ "sub"
        return s

    @gen
    def inner_init_q(y):
        x = categorical(QI[y]) @ "x"
        return x

    @gen
    def init_prop_n(constraints, prev):
        x = inner_init_q(constraints["sub"]["y"]) @ "sub"
        return x

    @gen
    def inner_ext_q(y, prev):
        x = categorical(QE[y, prev]) @ "x"
        return x

    @gen
    def ext_prop_n(constraints, old_choices, prev):
        x = inner_ext_q(constraints["sub"]["y"], prev) @ "sub"
        return x

    if nested:
        return step_n, init_prop_n, ext_prop_n
    if aux:
        return step_aux, init_prop, ext_prop
    return step, init_prop, ext_prop


def p_ref(obs):
    """Brute-force p(y_1..y_t) and sum_x p(x, y) 1[x_t = 1]."""
    t = len(obs)
    Tm, Em = np.exp(T_LOGITS), np.exp(E_LOGITS)
    tot, tot1 = 0.0, 0.0
    for xs in itertools.product((0, 1), repeat=t):
        p = 1.0
        prev = PREV0
        for x, y in zip(xs, obs):
            p *= Tm[prev, x] * Em[x, y]
            prev = x
        tot += p
        if xs[-1] == 1:
            tot1 += p
    return tot, tot1


PIPELINES = ("init_extend_q_aux", "rsmc_q_aux", "init_resample_cat_extend_sparse", "init_resample_sys_extend_sparse", "init_extend_sparse", "init", "init_q", "init_extend", "init_extend_q", "init_extend_q_nested", "init_extend_nested", "init_resample_cat_extend", "init_resample_sys_extend", "init_rejuv_extend_resample", "rsmc", "rsmc_mh", "rsmc_q")


def _pipeline(name, N, T):
    """Returns f(obs: int32[T]) -> tuple of (stage kind, ParticleCollection) as a pytree-able tuple."""
    import jax
    import jax.numpy as jnp
    from genjax import const, sel
    from genjax.inference import init, extend, resample, rejuvenate, rejuvenation_smc, mh

    sparse = name.endswith("_sparse")
    name = name[: -len("_sparse")] if sparse else name
    _use_tables(sparse)
    aux = name.endswith("_aux")
    name = name[: -len("_aux")] if aux else name
    nested = name.endswith("_nested")
    step, init_prop, ext_prop = _model(nested, aux)
    prev0 = jnp.asarray(PREV0, jnp.int32)
    kern = lambda tr: mh(tr, sel("x"))
    name = name[: -len("_nested")] if nested else name

    def f(obs):
        o = (lambda t: {"sub": {"y": obs[t]}}) if nested else (lambda t: {"y": obs[t]})
        if name == "init":
            return (init(step, (prev0,), const(N), o(0)),)
        if name == "init_q":
            return (init(step, (prev0,), const(N), o(0), init_prop),)
        if name == "init_extend":
            p0 = init(step, (prev0,), const(N), o(0))
            return (p0, extend(p0, step, p0.traces.get_retval(), o(1)))
        if name == "init_extend_q":
            p0 = init(step, (prev0,), const(N), o(0), init_prop)
            return (p0, extend(p0, step, p0.traces.get_retval(), o(1), ext_prop))
        if name.startswith("init_resample"):
            p0 = init(step, (prev0,), const(N), o(0))
            p1 = resample(p0, method="categorical" if "cat" in name else "systematic")
            return (p0, p1, extend(p1, step, p1.traces.get_retval(), o(1)))
        if name == "init_rejuv_extend_resample":
            p0 = init(step, (prev0,), const(N), o(0))
            p1 = rejuvenate(p0, kern)
            p2 = extend(p1, step, p1.traces.get_retval(), o(1))
            return (p0, p1, p2, resample(p2))
        if name.startswith("rsmc"):
            out = rejuvenation_smc(
                step,
                transition_proposal=ext_prop if name == "rsmc_q" else None,
                mcmc_kernel=const(kern) if name == "rsmc_mh" else None,
                observations={"y": obs},
                initial_model_args=(prev0,),
                n_particles=const(N),
                return_all_particles=const(True),
            )
            return (out,)
        raise ValueError(name)

    return f


STAGES = {
    "init": ["init"],
    "init_q": ["init_q"],
    "init_extend": ["init", "extend"],
    "init_extend_q": ["init_q", "extend_q"],
    "init_extend_q_aux": ["init_q", "extend_q"],
    "init_extend_q_nested": ["init_q", "extend_q"],
    "init_extend_nested": ["init", "extend"],
    "init_resample_cat_extend": ["init", "resample", "extend"],
    "init_resample_cat_extend_sparse": ["init", "resample", "extend"],
    "init_resample_sys_extend_sparse": ["init", "resample", "extend"],
    "init_extend_sparse": ["init", "extend"],
    "init_resample_sys_extend": ["init", "resample", "extend"],
    "init_rejuv_extend_resample": ["init", "rejuvenate", "extend", "resample"],
}


def _lml(P):
    lw = np.asarray(P.log_weights, np.float64)
    m = np.max(lw)
    if not np.isfinite(m):
        return -np.inf
    return float(np.asarray(P.log_marginal_estimate, np.float64)) + m + np.log(np.sum(np.exp(lw - m))) - np.log(len(lw))


def _check_stage(res, kind, P, Pprev, obs_t, t, N, det):
    """Leaf oracle for one stage; returns nothing, records violations."""
    ch = P.traces.get_choices()
    ch = {k: np.asarray(v) for k, v in (ch["sub"] if "sub" in ch else ch).items()}
    lw = np.asarray(P.log_weights, np.float64)
    sig = f"{det['pipeline']}:{kind}"
    if lw.shape != (N,):
        res.violate(PROP, f"weights-shape:{sig}", shape=list(lw.shape), **det)
        return
    if kind in ("init", "init_q", "extend", "extend_q"):
        x = ch["x"].astype(int)
        y = ch["y"].astype(int)
        args = P.traces.get_args()
        prev = np.asarray(args[0][0]).astype(int).reshape(-1)
        prev = np.broadcast_to(prev, (N,))
        if not np.all(y == obs_t):
            res.violate(PROP, f"observation-not-held:{sig}", y=y, obs_t=obs_t, **det)
        if Pprev is not None:
            want_prev = np.asarray(Pprev.traces.get_retval()).astype(int)
            if not np.array_equal(prev, want_prev):
                res.violate(PROP, f"parent-state:{sig}", args_prev=prev, previous_retval=want_prev, **det)
        inc = T_LOGITS[prev, x] + E_LOGITS[x, y]
        aux_lp = S_LOGITS[x, ch["s"].astype(int)] if "s" in ch else 0.0
        if kind == "init":
            inc = inc - T_LOGITS[prev, x]
        elif kind == "extend":
            inc = inc - T_LOGITS[prev, x]
        elif kind == "init_q":
            inc = inc - Q_INIT[obs_t, x]
        else:
            inc = inc - Q_EXT[obs_t, prev, x]
        base = np.zeros(N) if Pprev is None else np.asarray(Pprev.log_weights, np.float64)
        if not H.close(lw, base + inc, rtol=1e-4, atol=1e-4):
            res.violate(PROP, f"particle-weight:{sig}", log_weights=lw, reference=base + inc, x=x, prev=prev, obs_t=obs_t, **det)
        sc = np.asarray(P.traces._score if hasattr(P.traces, "_score") else P.traces.get_score(), np.float64)
        if np.shape(sc) != (N,):
            res.violate(PROP, f"particle-score-shape:{sig}", shape=list(np.shape(sc)), **det)
        elif not H.close(sc, -(T_LOGITS[prev, x] + E_LOGITS[x, y] + aux_lp), rtol=1e-4, atol=1e-4):
            res.violate(PROP, f"particle-score:{sig}", score=sc, reference=-(T_LOGITS[prev, x] + E_LOGITS[x, y] + aux_lp), **det)
        if Pprev is not None and not H.close(np.asarray(P.log_marginal_estimate), np.asarray(Pprev.log_marginal_estimate), rtol=1e-6, atol=1e-6):
            res.violate(PROP, f"running-estimate-changed:{sig}", **det)
    elif kind == "resample":
        if not np.all(lw == 0.0):
            res.violate(PROP, f"weights-not-reset:{sig}", log_weights=lw, **det)
        if not H.close(_lml(P), _lml(Pprev), rtol=1e-5, atol=2e-5):
            res.violate(PROP, f"estimate-changed-by-resampling:{sig}", after=_lml(P), before=_lml(Pprev), **det)
        # every output particle is a whole input particle
        import jax

        a = [np.asarray(l) for l in jax.tree_util.tree_leaves(P.traces)]
        b = [np.asarray(l) for l in jax.tree_util.tree_leaves(Pprev.traces)]
        for j in range(N):
            if not any(all(np.array_equal(x[j], y[i]) for x, y in zip(a, b) if np.shape(x)[:1] == (N,)) for i in range(N)):
                res.violate(PROP, f"resampled-particle-not-a-copy:{sig}", lane=j, **det)
                break
    elif kind == "rejuvenate":
        if not H.bits_equal(np.asarray(P.log_weights), np.asarray(Pprev.log_weights)):
            res.violate(PROP, f"rejuvenation-changed-weights:{sig}", after=lw, before=np.asarray(Pprev.log_weights), **det)
        if not H.close(_lml(P), _lml(Pprev), rtol=1e-6, atol=1e-6):
            res.violate(PROP, f"rejuvenation-changed-estimate:{sig}", **det)
        x = ch["x"].astype(int)
        y = ch["y"].astype(int)
        prev = np.broadcast_to(np.asarray(P.traces.get_args()[0][0]).astype(int).reshape(-1), (N,))
        if not np.all(y == obs_t):
            res.violate(PROP, f"observation-moved-by-rejuvenation:{sig}", y=y, **det)
        sc = np.asarray(P.traces._score, np.float64)
        aux_lp = S_LOGITS[x, ch["s"].astype(int)] if "s" in ch else 0.0
        if not H.close(sc, -(T_LOGITS[prev, x] + E_LOGITS[x, y] + aux_lp), rtol=1e-4, atol=1e-4):
            res.violate(PROP, f"rejuvenated-trace-incoherent:{sig}", score=sc, x=x, **det)
        if not np.array_equal(np.asarray(P.traces.get_retval()).astype(int), x):
            res.violate(PROP, f"rejuvenated-retval:{sig}", retval=np.asarray(P.traces.get_retval()), x=x, **det)


def work(item, tier, seed):
    import jax
    import jax.numpy as jnp
    from genjax import seed as gseed
    from genjax.core import handler_stack
    from mc import env, tree, gfi

    env.install()
    res = H.Result()
    name, N, T, obs = item
    obs = tuple(obs)
    _use_tables(name.endswith("_sparse"))
    key = jax.random.key(seed * 179424673 + 41)
    det0 = {"pipeline": name, "N": N, "obs": list(obs)}
    try:
        fn = jax.jit(gseed(_pipeline(name, N, len(obs))))
        jobs = jnp.asarray(obs, jnp.int32)
        env.run_recorded(fn, key, jobs)
    except Exception as ex:
        handler_stack.clear()
        res.violate(PROP, f"pipeline-raises:{name}", error=f"{type(ex).__name__}: {str(ex)[:400]}", **det0)
        res.states += 1
        res.transitions += 1
        return res

    def run(D):
        out, evs = env.run_recorded(fn, key, jobs, mode="script", decisions=D)
        res.evaluations += 1
        return out, evs

    def menu(ev, lane, ctx):
        if ev.name == "Uniform":
            return tree.INTERVAL
        if ev.name != "Categorical":
            raise tree.HarnessError(f"unexpected sampler {ev.name}")
        lg = np.asarray(gfi.lane_params(ev, lane)[0], np.float64)
        if not np.any(np.isfinite(lg)):
            # every particle is dead (all weights -inf): the ancestor law is undefined, the estimate is
            # 0 whatever is drawn -- one representative branch of probability 1
            return [(np.int32(0), 1.0, "dead collection")]
        return gfi.std_menu(ev, lane, ctx)

    nstage = len(STAGES[name]) if name in STAGES else len(obs)
    acc = np.zeros(nstage)
    acc1 = np.zeros(nstage)

    def on_leaf(leaf):
        res.states += 1
        res.validated += 1
        det = dict(det0, path=[(k[:6], l, c) for k, l, c in leaf.path][:40])
        outs = leaf.out
        if name in STAGES:
            stages = STAGES[name]
            tcount = -1
            prevP = None
            for si, (kind, P) in enumerate(zip(stages, outs)):
                if kind in ("init", "init_q", "extend", "extend_q"):
                    tcount += 1
                _check_stage(res, kind, P, prevP, obs[tcount], tcount, N, det)
                rep = float(np.asarray(P.log_marginal_likelihood(), np.float64))
                z = 0.0 if (np.isnan(rep) or np.isneginf(rep)) and np.isneginf(_lml(P)) else np.exp(rep)
                if np.isfinite(_lml(P)) and not H.close(rep, _lml(P), rtol=1e-4, atol=1e-4):
                    res.violate(PROP, f"log_marginal_likelihood-formula:{name}:{kind}", reported=np.log(max(z, 1e-300)), reference=_lml(P), **det)
                acc[si] += leaf.prob * z
                est = float(np.asarray(P.estimate(lambda c: ((c["sub"]["x"] if "sub" in c else c["x"]) == 1).astype(jnp.float32))))
                # (a dead collection has Zhat = 0: the unnormalised estimate Zhat * estimate is 0, the
                # self-normalised estimate itself is undefined there)
                acc1[si] += 0.0 if z == 0.0 else leaf.prob * z * est
                prevP = P
        else:
            allP = outs[0]
            for t in range(len(obs)):
                P = jax.tree_util.tree_map(lambda x: x[t], allP)
                lw = np.asarray(P.log_weights, np.float64)
                z = np.exp(_lml(P))
                acc[t] += leaf.prob * z
                w = np.exp(lw - np.max(lw))
                w = w / w.sum()
                xs = np.asarray(P.traces.get_choices()["x"]).astype(int)
                acc1[t] += leaf.prob * z * float(np.sum(w * (xs == 1)))
                y = np.asarray(P.traces.get_choices()["y"]).astype(int)
                if not np.all(y == obs[t]):
                    res.violate(PROP, f"observation-not-held:{name}", t=t, y=y, **det)
        res.case(name, N, obs, tuple(c for _k, _l, c in leaf.path))
        if res.states % 997 == 1 or not res.samples:
            res.add_sample(dict(det0, path=tree.path_json(leaf)[:12], final_log_weights=np.asarray((outs[-1] if name in STAGES else jax.tree_util.tree_map(lambda x: x[-1], outs[0])).log_weights), prob=leaf.prob))

    st = tree.explore(run, menu, on_leaf, max_leaves=30000 if tier == "quick" else 200000, check_determinism=False)
    res.transitions += st.nodes + st.probes
    res.capped |= st.capped
    res.notes["interval_probes"] = st.probes
    if st.capped:
        res.notes["capped_pipelines"] = [f"{name}:N={N}:obs={obs}"]
        return res
    if abs(st.total_prob - 1.0) > 1e-5:
        res.violate(PROP, f"tree-mass:{name}", total=st.total_prob, **det0)
        return res
    # unbiasedness after every stage
    if name in STAGES:
        tc = -1
        for si, kind in enumerate(STAGES[name]):
            if kind in ("init", "init_q", "extend", "extend_q"):
                tc += 1
            pz, p1 = p_ref(obs[: tc + 1])
            if not H.close(acc[si], pz, rtol=5e-4, atol=1e-7):
                res.violate(PROP, f"evidence-biased:{name}:{kind}", stage=si, expectation=acc[si], reference=pz, **det0)
            if not H.close(acc1[si], p1, rtol=5e-4, atol=1e-7):
                res.violate(PROP, f"weighted-estimate-biased:{name}:{kind}", stage=si, expectation=acc1[si], reference=p1, **det0)
    else:
        for t in range(len(obs)):
            pz, p1 = p_ref(obs[: t + 1])
            if not H.close(acc[t], pz, rtol=5e-4, atol=1e-7):
                res.violate(PROP, f"evidence-biased:{name}", t=t, expectation=acc[t], reference=pz, **det0)
            if not H.close(acc1[t], p1, rtol=5e-4, atol=1e-7):
                res.violate(PROP, f"weighted-estimate-biased:{name}", t=t, expectation=acc1[t], reference=p1, **det0)
    res.notes["trees_completed"] = 1
    return res


def items(tier):
    its = []
    for name in PIPELINES:
        for N in (1, 2) if tier == "quick" else (1, 2, 3):
            if name.startswith("rsmc"):
                Ts = (2,) if tier == "quick" else (2, 3)
            elif name in ("init", "init_q"):
                Ts = (1,)
            elif name.endswith("_nested") and N == 3:
                continue
            else:
                Ts = (2,)
            if N == 3 and name in ("init_rejuv_extend_resample", "rsmc_mh"):
                continue  # reported: the tree exceeds the leaf cap
            for T in Ts:
                seqs = list(itertools.product((0, 1), repeat=T))
                if tier == "quick" and name.startswith("rsmc") and N == 2:
                    seqs = [s for s in seqs if s in ((0, 1), (1, 1))]
                for obs in seqs:
                    its.append((name, N, T, obs))
    # ESS-triggered resampling inside rejuvenation_smc needs ESS < N // 2, impossible for N <= 3:
    # N = 4 is the smallest particle count that reaches the resampling branch of the lax.cond
    # (thorough only: ~60k leaves per observation sequence)
    if tier == "thorough":
        for obs in itertools.product((0, 1), repeat=2):
            its.append(("rsmc", 4, 2, obs))
    return its


def main(tier, seed):
    t0 = time.time()
    its = items(tier)
    only = os.environ.get("VERIF_ONLY")
    if only:
        its = [it for it in its if only in str(it)]
    res, errors = H.fan_out("checks.c10", "work", its, tier, seed)
    rule = (
        "pipeline x particle count N (1,2 quick; 1..3 thorough) x every observation sequence in {0,1}^T: full choice tree of all per-lane proposal draws, "
        "ancestor draws and (by interval partition) accept / systematic-offset uniforms under jit(seed(pipeline)); states = leaves (complete pipeline "
        "executions), transitions = real executions incl. probes"
    )
    return H.finish(
        PROP, tier, seed, "model_checking", res, errors, t0, rule,
        ["2-state / 2-symbol HMM step model with fixed tables; uniforms enter only through piecewise-constant decisions, partitioned by probing a 17-point grid + bisection to 2e-7 (an interval narrower than the grid spacing with equal behaviour on both sides would be missed)"],
        {"work_items": len(its)},
    )


def replay(path):
    import json

    j = json.load(open(path))
    print(json.dumps(j, indent=1)[:3000])
    d = j["detail"]
    os.environ["VERIF_ONLY"] = f"'{d.get('pipeline')}', {d.get('N')}"
    return main("quick", int(os.environ.get("VERIF_SEED", "0") or 0))
