"""C07  Every sample site of a seeded run gets its own independent randomness.

Monitor mode at the sampler seam over program shapes {sequence, sample_shape sites, scan,
nested scans, vmap of scan, scan of vmap, cond inside scan, switch, gen-fn combinators
(Vmap/Scan/Cond/repeat, depth 2), mh/mala kernels inside chain, rejuvenation_smc} x a set of
root keys (16 quick / 128 thorough) x {eager, jit}:
 (i)   the concrete PRNG keys handed to the sites of one execution are pairwise distinct and
       none equals the root key (no stream is used twice);
 (ii)  (eager, scan-free shapes) key-derivation linearity: every key value is consumed at most
       once -- split once, or folded with pairwise distinct data, or handed to one sampler --
       observed through a proxy on the interpreter's own `jax.random` alias;
 (iii) equally parameterised continuous sites, all scan iterations and all lanes of a
       vectorised site return pairwise distinct values;
 (iv)  each draw equals (bit for bit; floats to 2e-6 under jit fusion) the independent tfd.X(parameters).sample(seed=that
       site's key, sample_shape) computed by the harness: the site's draw IS its
       distribution's draw for its own key;
 (v)   the number of draws is the number of sites the shape has (none skipped or merged).
Statistical independence itself is not sampled: it is reduced to (i)+(ii) -- distinct,
never-reused leaves of the split / fold_in tree -- which is the PRNG's contract (trusted).
"""

from __future__ import annotations

import os
import time

import numpy as np

from mc import harness as H

PROP = "C07"


def _shapes():
    import jax
    import jax.numpy as jnp
    from genjax import normal, uniform, exponential, flip, modular_vmap, const, sel, gen, Scan, Cond
    from mc import lang as L
    from mc import family as F

    def seq():
        a = normal.sample(0.0, 1.0)
        b = normal.sample(0.0, 1.0)
        c = uniform.sample(0.0, 1.0)
        d = normal.sample(0.0, 1.0)
        return a, b, c, d

    def shaped():
        a = normal.sample(0.0, 1.0, sample_shape=(3,))
        b = normal.sample(0.0, 1.0, sample_shape=(3,))
        c = normal.sample(jnp.zeros(2), 1.0, sample_shape=(2,))
        return a, b, c

    def body(c, _):
        x = normal.sample(0.0, 1.0)
        y = normal.sample(0.0, 1.0)
        return c + x, (x, y)

    def scan1():
        return jax.lax.scan(body, 0.0, None, length=3)

    def nested_scan():
        def outer(c, _):
            z = normal.sample(0.0, 1.0)
            c2, ys = jax.lax.scan(body, c, None, length=2)
            return c2 + z, (z, ys)

        return jax.lax.scan(outer, 0.0, None, length=2)

    def vmap_of_scan():
        return modular_vmap(lambda m: jax.lax.scan(lambda c, _: (c + normal.sample(0.0, 1.0), normal.sample(0.0, 1.0)), m, None, length=2), in_axes=(0,))(jnp.zeros(2))

    def scan_of_vmap():
        def b(c, _):
            xs = modular_vmap(lambda m: normal.sample(m, 1.0), in_axes=(0,))(jnp.zeros(2))
            w = normal.sample(0.0, 1.0)
            return c + jnp.sum(xs) + w, xs

        return jax.lax.scan(b, 0.0, None, length=3)

    def cond_in_scan():
        def b(c, i):
            x = jax.lax.cond(i % 2 == 0, lambda: normal.sample(0.0, 1.0), lambda: normal.sample(0.0, 1.0) + 0.0)
            y = normal.sample(0.0, 1.0)
            return c + x, (x, y)

        return jax.lax.scan(b, 0.0, jnp.arange(4))

    def switch3():
        outs = []
        for i in range(3):
            outs.append(jax.lax.switch(i, [lambda: normal.sample(0.0, 1.0), lambda: normal.sample(0.0, 1.0) * 1.0, lambda: normal.sample(0.0, 1.0) + 0.0]))
        return outs

    def scan_then_sites():
        c, ys = jax.lax.scan(body, 0.0, None, length=3)
        a = normal.sample(0.0, 1.0)
        b = normal.sample(0.0, 1.0)
        d = normal.sample(0.0, 1.0)
        return ys, a, b, d

    def site_scan_cond_site():
        a = normal.sample(0.0, 1.0)
        c, ys = jax.lax.scan(body, a, None, length=2)
        x = jax.lax.cond(a > 0.0, lambda: normal.sample(0.0, 1.0), lambda: normal.sample(0.0, 1.0) * 1.0)
        c2, zs = jax.lax.scan(body, c, None, length=2)
        b = normal.sample(0.0, 1.0)
        return a, ys, x, zs, b

    def cond_then_sites():
        x = jax.lax.cond(True, lambda: normal.sample(0.0, 1.0), lambda: normal.sample(0.0, 1.0) * 1.0)
        a = normal.sample(0.0, 1.0)
        b = normal.sample(0.0, 1.0)
        return x, a, b

    def cond_false_then_sites():
        x = jax.lax.cond(False, lambda: normal.sample(0.0, 1.0), lambda: normal.sample(0.0, 1.0) * 1.0)
        a = normal.sample(0.0, 1.0)
        k = jax.lax.switch(0, [lambda: normal.sample(0.0, 1.0), lambda: normal.sample(0.0, 1.0) + 0.0])
        b = normal.sample(0.0, 1.0)
        return x, a, k, b

    def vmap_axis_size():
        return modular_vmap(lambda: (normal.sample(0.0, 1.0), normal.sample(0.0, 1.0)), in_axes=(), axis_size=3)()

    shapes = {
        # name: (callable taking no args, expected number of element draws or None, has_scan)
        "seq": (seq, 4, False),
        "shaped": (shaped, 3 + 3 + 4, False),
        "scan1": (scan1, 6, True),
        "nested_scan": (nested_scan, 2 * (1 + 4), True),
        "vmap_of_scan": (vmap_of_scan, 2 * 2 * 2, True),
        "scan_of_vmap": (scan_of_vmap, 3 * 3, True),
        "cond_in_scan": (cond_in_scan, 8, True),
        "switch3": (switch3, 3, False),
        "vmap_axis_size": (vmap_axis_size, 6, False),
        "scan_then_sites": (scan_then_sites, 6 + 3, True),
        "site_scan_cond_site": (site_scan_cond_site, 1 + 4 + 1 + 4 + 1, True),
        "cond_then_sites": (cond_then_sites, 3, False),
        "cond_false_then_sites": (cond_false_then_sites, 4, False),
    }
    # generative functions of the family (continuous sites only are compared for distinctness)
    for pname in ("repeat_chain", "vmap_dist", "scan_c", "vmap_indep", "scan_vmap", "vmap_scan", "cond_c", "repeat_vecsite"):
        prog, argsl, _t = F.FAMILY[pname]
        fn = L.compile_prog(prog)
        args = tuple(jnp.asarray(a) for a in argsl[0])
        shapes[f"gen:{pname}"] = ((lambda fn=fn, args=args: fn.simulate(*args).get_choices()), None, "scan" in pname)

    # kernels inside chain, SMC
    from genjax.inference import chain, mh, mala, rejuvenation_smc

    fnc = L.compile_prog(F.chain)
    tr0, _ = fnc.generate({"x": jnp.float32(0.4), "y": jnp.float32(1.3)}, jnp.float32(0.3))

    # (the initial trace is turned into arrays first: a trace built eagerly holds Python-float
    # parameter literals, which chain's multi-chain replication cannot index)
    tr0 = jax.tree_util.tree_map(jnp.asarray, tr0)

    def chain_mh():
        r = chain(lambda t: mh(t, sel("x")))(tr0, const(3))
        return r.traces.get_choices(), r.accepts

    def chain_mala2():
        r = chain(lambda t: mala(t, sel("x"), 0.3))(tr0, const(2), n_chains=const(2))
        return r.traces.get_choices(), r.accepts

    shapes["chain_mh"] = (chain_mh, 3 * 2, True)
    shapes["chain_mala_2chains"] = (chain_mala2, 2 * 2 * 2, True)

    @gen
    def lg_step(prev):
        x = normal(prev, 1.0) @ "x"
        y = normal(x, 0.5) @ "y"
        return x

    def smc():
        P = rejuvenation_smc(lg_step, observations={"y": jnp.asarray([0.3, -0.2, 0.8], jnp.float32)}, initial_model_args=(jnp.float32(0.0),), n_particles=const(3), mcmc_kernel=const(lambda t: mh(t, sel("x"))))
        return P.log_weights, P.traces.get_choices()

    shapes["rejuvenation_smc"] = (smc, None, True)
    return shapes


TFD = None


def _independent_draw(ev):
    """tfd.X(parameters).sample(seed=site key, sample_shape) built by the harness."""
    import jax
    import jax.numpy as jnp
    from tensorflow_probability.substrates import jax as tfp

    tfd = tfp.distributions
    key = jax.random.wrap_key_data(jnp.asarray(np.frombuffer(ev.key, np.uint32)))
    a = [jnp.asarray(x) for x in ev.args]
    ctor = {
        "Normal": lambda: tfd.Normal(loc=a[0], scale=a[1]),
        "Uniform": lambda: tfd.Uniform(low=a[0], high=a[1]),
        "Exponential": lambda: tfd.Exponential(rate=a[0]),
        "Flip": lambda: tfd.Bernoulli(probs=a[0], dtype=jnp.bool_),
        "Categorical": lambda: tfd.Categorical(logits=a[0]),
        "MultivariateNormal": lambda: tfd.MultivariateNormalFullCovariance(loc=a[0], covariance_matrix=a[1]),
    }.get(ev.name)
    if ctor is None:
        return None
    return np.asarray(ctor().sample(seed=key, sample_shape=tuple(ev.sample_shape)))


class _JrandProxy:
    """Stands in for the `jrand` alias inside genjax.pjax only; logs concrete derivations."""

    def __init__(self, real, log):
        self._real = real
        self._log = log

    def __getattr__(self, n):
        return getattr(self._real, n)

    def _kb(self, k):
        import jax

        try:
            return np.asarray(jax.random.key_data(k)).tobytes()
        except Exception:
            return None

    def split(self, key, *a, **kw):
        kb = self._kb(key)
        if kb is not None:
            self._log.append(("split", kb, None))
        return self._real.split(key, *a, **kw)

    def fold_in(self, key, data):
        kb = self._kb(key)
        try:
            d = int(np.asarray(data))
        except Exception:
            d = None
        if kb is not None and d is not None:
            self._log.append(("fold_in", kb, d))
        return self._real.fold_in(key, data)


def work(item, tier, seed):
    import jax
    import jax.numpy as jnp
    import genjax.pjax as pjax
    from genjax import seed as gseed
    from genjax.core import handler_stack
    from mc import env

    env.install()
    res = H.Result()
    sname, klo, khi = item
    f, expected, has_scan = _shapes()[sname]
    sf = gseed(f)
    jf = jax.jit(sf)
    for ki in range(klo, khi):
        root = jax.random.key(1000 * seed + ki)
        rootb = env.key_bytes(root)
        for config in ("jit", "eager") if (ki - klo) < 2 else ("jit",):
            det = {"shape": sname, "root_key_seed": 1000 * seed + ki, "config": config}
            try:
                out, evs = env.run_recorded(jf if config == "jit" else sf, root, mode="monitor")
                res.evaluations += 1
                res.transitions += 1
            except Exception as ex:
                handler_stack.clear()
                res.violate(PROP, f"raises:{sname}:{config}", error=f"{type(ex).__name__}: {str(ex)[:300]}", **det)
                continue
            res.states += 1
            res.validated += 1
            keys = [e.key for e in evs]
            # (i) distinct site keys, none equal to the root
            if len(set(keys)) != len(keys):
                dup = [k.hex() for k in set(keys) if keys.count(k) > 1][:2]
                res.violate(PROP, f"site-key-reused:{sname}", duplicated=dup, sites=[(e.name, e.keyhex()) for e in evs][:12], **det)
            if rootb in keys:
                res.violate(PROP, f"root-key-used-by-a-site:{sname}", **det)
            # (v) number of element draws
            n_el = sum(int(np.prod(np.shape(e.value)[: np.ndim(e.value) - (1 if e.name == "MultivariateNormal" else 0)], dtype=np.int64)) if np.ndim(e.value) else 1 for e in evs)
            if expected is not None and n_el != expected:
                res.violate(PROP, f"draw-count:{sname}", draws=n_el, expected=expected, **det)
            # (iii) equally parameterised continuous draws pairwise distinct
            groups = {}
            for e in evs:
                v = np.asarray(e.value)
                if v.dtype.kind != "f":
                    continue
                args = [np.asarray(a) for a in e.args]
                if e.name == "MultivariateNormal":
                    rows = v.reshape(-1, v.shape[-1])
                    for r in rows:
                        groups.setdefault((e.name, "mvn"), []).append(r.tobytes())
                    continue
                # element-level parameters
                try:
                    bp = [np.broadcast_to(a, v.shape) for a in args]
                except ValueError:
                    bp = [np.zeros(v.shape) for _ in args]
                for idx in np.ndindex(*v.shape):
                    gk = (e.name,) + tuple(float(b[idx]) for b in bp)
                    groups.setdefault(gk, []).append(v[idx].tobytes())
            for gk, vals in groups.items():
                if len(set(vals)) != len(vals):
                    res.violate(PROP, f"equal-draws-at-equally-parameterised-sites:{sname}", site=str(gk), n=len(vals), distinct=len(set(vals)), **det)
                    break
            # (iv) the draw is the site's distribution's draw for its own key
            for e in evs:
                try:
                    ind = _independent_draw(e)
                except Exception as ex:
                    ind = None
                if ind is None:
                    continue
                res.evaluations += 1
                # (fused arithmetic under jit may differ from the eager TFP call in the last ulp)
                same = np.shape(ind) == np.shape(e.real) and (H.bits_equal(np.asarray(e.real), ind.astype(np.asarray(e.real).dtype)) or (np.asarray(ind).dtype.kind == "f" and H.close(e.real, ind, rtol=2e-6, atol=2e-7)))
                if not same:
                    res.violate(PROP, f"draw-is-not-the-sites-distribution:{sname}:{e.name}", site=e.brief(), independent=ind, **det)
                    break
            res.case(sname, ki, config)
            if not res.samples:
                res.add_sample(dict(det, sites=[{"name": e.name, "key": e.keyhex(), "shape": list(np.shape(e.value))} for e in evs][:10]))
        # (ii) derivation linearity, eager, scan-free shapes
        if not has_scan and (ki - klo) < 4:
            log = []
            real = pjax.jrand
            pjax.jrand = _JrandProxy(real, log)
            try:
                out, evs = env.run_recorded(sf, root, mode="monitor")
                res.evaluations += 1
                res.transitions += 1
            except Exception as ex:
                handler_stack.clear()
                evs = []
            finally:
                pjax.jrand = real
            uses = {}
            for kind, kb, d in log:
                uses.setdefault(kb, []).append((kind, d))
            for e in evs:
                uses.setdefault(e.key, []).append(("sample", None))
            for kb, us in uses.items():
                kinds = {u[0] for u in us}
                folds = [u[1] for u in us if u[0] == "fold_in"]
                bad = (len(kinds) > 1) or (us.count(("split", None)) > 1) or (sum(1 for u in us if u[0] == "sample") > 1) or (len(set(folds)) != len(folds))
                if bad:
                    res.violate(PROP, f"key-consumed-twice:{sname}", key=kb.hex(), uses=[list(map(str, u)) for u in us][:6], shape=sname, root_key_seed=1000 * seed + ki)
                    break
            res.notes["linearity_runs"] = res.notes.get("linearity_runs", 0) + 1
    return res


def items(tier):
    nk = 16 if tier == "quick" else 128
    its = []
    names = [
        "seq", "shaped", "scan1", "nested_scan", "scan_then_sites", "site_scan_cond_site", "cond_then_sites", "cond_false_then_sites", "vmap_of_scan", "scan_of_vmap", "cond_in_scan", "switch3", "vmap_axis_size",
        "gen:repeat_chain", "gen:vmap_dist", "gen:scan_c", "gen:vmap_indep", "gen:scan_vmap", "gen:vmap_scan", "gen:cond_c", "gen:repeat_vecsite",
        "chain_mh", "chain_mala_2chains", "rejuvenation_smc",
    ]
    step = 16 if tier == "quick" else 32
    for n in names:
        for lo in range(0, nk, step):
            its.append((n, lo, min(nk, lo + step)))
    return its


def main(tier, seed):
    t0 = time.time()
    its = items(tier)
    only = os.environ.get("VERIF_ONLY")
    if only:
        its = [it for it in its if only in str(it)]
    res, errors = H.fan_out("checks.c07", "work", its, tier, seed)
    rule = "24 program shapes x root keys (16 quick / 128 thorough) x {jit, eager(first 2 keys)}: all sampler invocations recorded at the seam; states = executions analysed, transitions = real executions"
    return H.finish(
        PROP, tier, seed, "model_checking", res, errors, t0, rule,
        ["independence of distinct leaves of the threefry split/fold_in tree is the PRNG's contract (trusted); the law of TFP's samplers over keys is not enumerable (2^64 keys): each draw is shown to be TFP's own draw for the site's own key and parameters", "key-derivation linearity is observed eagerly on scan-free shapes only (inside lax.scan keys are tracers)"],
        {"work_items": len(its)},
    )


def replay(path):
    import json

    j = json.load(open(path))
    print(json.dumps(j, indent=1)[:3000])
    os.environ["VERIF_ONLY"] = f"'{j['detail'].get('shape')}'"
    return main("quick", int(os.environ.get("VERIF_SEED", "0") or 0))
