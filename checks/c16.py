"""C16  Selections are a Boolean algebra on addresses; filter/merge partition choices.

Exhaustive enumeration (no randomness to own except in part C):
 A. every selection expression up to a nesting bound x every address path of depth <= 3:
    membership through the real `match` chain (leaf decision `() in remainder`, as
    Distribution.regenerate takes it) == reference denotation (mc/selref.den).
 B. every choice-map shape (nested dicts, depth <= 3) x every selection representative:
    Fn.filter gives two disjoint maps whose merge is the input and whose first part holds
    exactly the leaves in the denotation.
 C. real programs with those address shapes: the addresses that regenerate resamples
    (continuous sites: resampled <=> bits changed, plus the sampling events seen at the seam)
    and the leaves that mala moves are exactly the denotation as well.
"""

from __future__ import annotations

import itertools
import os
import time

import numpy as np

from mc import harness as H
from mc import selref as S

PROP = "C16"
ALPHA = ("a", "b", "c")


def _levels(tier):
    paths = S.all_paths(ALPHA, 3)
    l0 = S.atoms(ALPHA)
    l1 = l0 + list(S.close_once(l0))
    reps1 = S.dedupe(l1, paths, per_ctor=True)
    # dicts whose values are compound selections
    dict_vals = S.dedupe(l1, [p for p in paths if len(p) <= 2], per_ctor=False)
    l1d = [("dict", (("a", v),)) for v in dict_vals] + [("dict", (("a", v), ("c", ("all",)))) for v in dict_vals[:40]]
    return paths, l0, l1, reps1, l1d


def _exprs_for_item(item, tier):
    """Deterministically regenerate the slice of expressions of a work item."""
    kind, lo, hi = item
    paths, l0, l1, reps1, l1d = _levels(tier)
    if kind == "L1":
        xs = l1 + l1d
        return xs[lo:hi], paths
    if kind == "L2":
        base = reps1 if tier == "thorough" else S.dedupe(reps1, paths, per_ctor=False)
        xs = itertools.islice(S.close_once(base + l1d[:20], base), lo, hi)
        return list(xs), paths
    if kind == "L3":
        base = S.dedupe(reps1, paths, per_ctor=False)
        l2 = S.dedupe(list(S.close_once(base, base)), paths, per_ctor=False)
        xs = itertools.islice(S.close_once(l2, base), lo, hi)
        return list(xs), paths
    raise ValueError(kind)


def work_membership(item, tier, seed):
    res = H.Result()
    exprs, paths = _exprs_for_item(item, tier)
    for e in exprs:
        try:
            s = S.build(e)
        except Exception as ex:  # building a selection must never fail
            res.violate(PROP, f"build:{e[0]}", expr=S.show(e), error=repr(ex))
            continue
        bad = None
        nsel = 0
        for p in paths:
            want = S.den(e, p)
            try:
                got = S.impl_member(s, p)
            except Exception as ex:
                got = f"raised {type(ex).__name__}"
            nsel += bool(want)
            res.transitions += 1
            if got != want and bad is None:
                bad = (p, want, got)
        res.states += 1
        res.validated += 1
        if 0 < nsel < len(paths):
            res.nontrivial += 1
        if bad:
            p, want, got = bad
            res.violate(
                PROP,
                f"membership:{_shape_sig(e)}",
                expr=S.show(e),
                path=list(p),
                reference=want,
                implementation=got,
                part="A",
            )
        if res.states % 997 == 1:
            res.add_sample({"part": "A", "expr": S.show(e), "selected_paths": nsel, "paths": len(paths)})
    res.evaluations = res.transitions
    return res


def _shape_sig(e, depth=0):
    """Constructor skeleton of an expression (signature for known-finding matching)."""
    t = e[0]
    if t in ("none", "all", "str"):
        return t
    if t == "tup":
        return f"tup{len(e[1])}"
    if t == "dict":
        return "dict(" + ",".join(_shape_sig(v, depth + 1) for _k, v in e[1]) + ")"
    if t == "not":
        return "not(" + _shape_sig(e[1], depth + 1) + ")"
    return f"{t}(" + _shape_sig(e[1], depth + 1) + "," + _shape_sig(e[2], depth + 1) + ")"


# ---------------------------------------------------------------- part B: filter / merge


def _shapes(keys, depth):
    """All non-empty nested-dict shapes: a shape is a dict key -> 'leaf' | shape."""
    if depth == 0:
        return []
    subs = _shapes(keys, depth - 1)
    opts = [None, "leaf"] + subs
    out = []
    for combo in itertools.product(opts, repeat=len(keys)):
        d = {k: v for k, v in zip(keys, combo) if v is not None}
        if d:
            out.append(d)
    return out


def _leaf_paths(shape, prefix=()):
    for k, v in shape.items():
        if v == "leaf":
            yield prefix + (k,)
        else:
            yield from _leaf_paths(v, prefix + (k,))


def _instantiate(shape, prefix=()):
    out = {}
    for k, v in shape.items():
        p = prefix + (k,)
        if v == "leaf":
            code = sum((ord(c) - 96) * 10**i for i, c in enumerate(reversed(p)))
            # scalar leaves and vectorised leaves alternate by path code
            out[k] = np.float32(code) if code % 2 else np.asarray([code, code + 0.5], np.float32)
        else:
            out[k] = _instantiate(v, p)
    return out


def _flatten(x, prefix=()):
    if x is None:
        return {}
    out = {}
    for k, v in x.items():
        if isinstance(v, dict):
            out.update(_flatten(v, prefix + (k,)))
        else:
            out[prefix + (k,)] = v
    return out


def work_filter(item, tier, seed):
    from genjax import gen

    res = H.Result()
    kind, lo, hi = item
    if kind == "S3ab":
        shapes = _shapes(("a", "b"), 3)
    else:
        shapes = _shapes(ALPHA, 2)
    shapes = shapes[lo:hi]
    paths, l0, l1, reps1, l1d = _levels(tier)
    sels = reps1 + l1d[:30] if tier == "thorough" else S.dedupe(reps1, paths, per_ctor=False) + l1d[:10]
    built = [(e, S.build(e)) for e in sels]
    fn = gen(lambda: None)
    for shape in shapes:
        x = _instantiate(shape)
        leaves = _flatten(x)
        for e, s in built:
            res.transitions += 1
            want_sel = {p for p in leaves if S.den(e, p)}
            try:
                a, b = fn.filter(x, s)
                fa, fb = _flatten(a), _flatten(b)
                problem = None
                if set(fa) & set(fb):
                    problem = "parts overlap"
                elif set(fa) | set(fb) != set(leaves):
                    problem = "parts do not cover the choice map"
                elif any(fa[p] is not leaves[p] for p in fa) or any(fb[p] is not leaves[p] for p in fb):
                    problem = "a value changed"
                elif set(fa) != want_sel:
                    problem = "selected part differs from the denotation"
                else:
                    if a is not None and b is not None:
                        m, _ = fn.merge(a, b)
                        fm = _flatten(m)
                        if set(fm) != set(leaves) or any(fm[p] is not leaves[p] for p in fm):
                            problem = "merge of the parts is not the input"
                    elif a is None and b is None:
                        problem = "both parts empty"
            except Exception as ex:
                problem = f"raised {type(ex).__name__}: {ex}"
                fa = {}
            res.validated += 1
            if want_sel and len(want_sel) < len(leaves):
                res.nontrivial += 1
            if problem:
                res.violate(
                    PROP,
                    f"filter:{problem.split(':')[0]}:{_shape_sig(e)}",
                    part="B",
                    expr=S.show(e),
                    choice_map_leaves=[list(p) for p in sorted(leaves)],
                    reference_selected=[list(p) for p in sorted(want_sel)],
                    filter_selected=[list(p) for p in sorted(fa)],
                    problem=problem,
                )
        res.states += 1
        if res.states % 211 == 1:
            res.add_sample({"part": "B", "shape_leaves": [list(p) for p in sorted(leaves)], "selections": len(built)})
    res.evaluations = res.transitions
    return res


# ---------------------------------------------------------------- part C: consumers agree


def _programs():
    """Real programs whose address shapes cover depth 1..3, scalar / vector / Vmap / Cond leaves."""
    import jax.numpy as jnp
    from genjax import gen, normal, Cond

    @gen
    def leaf2():
        b = normal(0.0, 1.0) @ "b"
        c = normal(b, 1.0) @ "c"
        return c

    @gen
    def mid():
        a = normal(0.0, 1.0) @ "a"
        b = leaf2() @ "b"
        return a + b

    @gen
    def p1():
        a = normal(0.0, 1.0) @ "a"
        b = normal(a, 1.0) @ "b"
        c = normal(b, 1.0) @ "c"
        return c

    @gen
    def p2():
        a = leaf2() @ "a"
        b = normal(a, 1.0) @ "b"
        c = leaf2() @ "c"
        return b + c

    @gen
    def p3():
        a = mid() @ "a"  # a/a, a/b/b, a/b/c
        b = leaf2() @ "b"  # b/b, b/c
        c = normal(a + b, 1.0) @ "c"
        return c

    @gen
    def p4():
        # vectorised leaves under a Vmap'd callee and a vector-parameterised site
        a = leaf2.repeat(2)() @ "a"  # a/b, a/c  (batched)
        b = normal.vmap(in_axes=(0, None))(a, 1.0) @ "b"
        return b

    @gen
    def br_t():
        b = normal(1.0, 1.0) @ "b"
        return b

    @gen
    def br_f():
        b = normal(-1.0, 2.0) @ "b"
        return b

    @gen
    def p5(flag):
        # the predicate does not depend on a sampled value: resampling `a` must not make the
        # visible leaf c/b change by switching branches (that would not be a resampling)
        a = normal(0.0, 1.0) @ "a"
        c = Cond(br_t, br_f)(flag) @ "c"  # Cond-merged leaf c/b
        b = normal(c + a, 1.0) @ "b"
        return b

    return {"p1": (p1, ()), "p2": (p2, ()), "p3": (p3, ()), "p4": (p4, ()), "p5": (p5, (jnp.array(True),))}


def work_consumers(item, tier, seed):
    import jax
    import jax.numpy as jnp
    from genjax import seed as gseed
    from genjax.core import handler_stack
    from genjax.inference import mala
    from mc import env

    env.install()
    res = H.Result()
    pname, lo, hi = item
    prog, pargs = _programs()[pname]
    key = jax.random.key(1000 + seed)
    tr = gseed(prog.simulate)(key, *pargs)
    old = _flatten(tr.get_choices())
    paths, l0, l1, reps1, l1d = _levels(tier)
    sels = S.dedupe(reps1 + l1d[:30], list(old) + paths, per_ctor=(tier == "thorough"))
    sels = sels[lo:hi]
    for i, e in enumerate(sels):
        s = S.build(e)
        want = {p for p in old if S.den(e, p)}
        k2 = jax.random.fold_in(key, 7 + i)
        # --- regenerate: which leaves were resampled
        try:
            (new_tr, w, disc), evs = env.run_recorded(gseed(prog.regenerate), k2, tr, s, *pargs)
            new = _flatten(new_tr.get_choices())
            moved = {p for p in old if not H.bits_equal(old[p], new[p])}
            err = None
        except Exception as ex:
            handler_stack.clear()
            err = f"{type(ex).__name__}: {ex}"
            moved, evs = None, []
        res.transitions += 1
        if err is None:
            # p5: the hidden Cond branch is resampled too but invisible; `moved` only sees visible leaves
            if moved != want:
                res.violate(PROP, f"regenerate-vs-denotation:{pname}:{_shape_sig(e)}", part="C", program=pname, expr=S.show(e), reference=[list(p) for p in sorted(want)], resampled=[list(p) for p in sorted(moved)])
        else:
            res.violate(PROP, f"regenerate-raises:{pname}:{type_of(err)}", part="C", program=pname, expr=S.show(e), error=err[:300])
        # --- filter on the real choice map
        try:
            a, b = prog.filter(tr.get_choices(), s)
            fsel = set(_flatten(a))
            if fsel != want:
                res.violate(PROP, f"filter-vs-denotation:{pname}:{_shape_sig(e)}", part="C", program=pname, expr=S.show(e), reference=[list(p) for p in sorted(want)], filter_selected=[list(p) for p in sorted(fsel)])
        except Exception as ex:
            res.violate(PROP, f"filter-raises:{pname}:{type(ex).__name__}", part="C", program=pname, expr=S.show(e), error=str(ex)[:300])
        # --- mala: which leaves move (accept forced by scripting u ~ 0; noise is the real draw)
        if pname != "p5" or True:
            try:
                ENV_D = {}
                (mtr), evs_m = env.run_recorded(gseed(lambda t: mala(t, s, 0.05)), k2, tr)
                # force acceptance: re-run with every Uniform scripted to ~0
                D = {ev.key: {0: np.float32(1e-30)} for ev in evs_m if ev.name == "Uniform"}
                (mtr), evs_m = env.run_recorded(gseed(lambda t: mala(t, s, 0.05)), k2, tr, mode="script", decisions=D)
                mnew = _flatten(mtr.get_choices())
                mmoved = {p for p in old if not H.bits_equal(old[p], mnew[p])}
                if mmoved != want:
                    res.violate(PROP, f"mala-vs-denotation:{pname}:{_shape_sig(e)}", part="C", program=pname, expr=S.show(e), reference=[list(p) for p in sorted(want)], moved=[list(p) for p in sorted(mmoved)])
            except Exception as ex:
                handler_stack.clear()
                res.violate(PROP, f"mala-raises:{pname}:{type(ex).__name__}", part="C", program=pname, expr=S.show(e), error=str(ex)[:300])
            res.transitions += 2
        res.states += 1
        res.validated += 1
        if want and len(want) < len(old):
            res.nontrivial += 1
        if i % 40 == 0:
            res.add_sample({"part": "C", "program": pname, "expr": S.show(e), "selected": [list(p) for p in sorted(want)]})
    res.evaluations = res.transitions
    return res


def type_of(err):
    return err.split(":")[0]


def work(item, tier, seed):
    if item[0] in ("L1", "L2", "L3"):
        return work_membership(item, tier, seed)
    if item[0] in ("S3ab", "S2abc"):
        return work_filter(item, tier, seed)
    return work_consumers(item, tier, seed)


def _items(tier):
    paths, l0, l1, reps1, l1d = _levels(tier)
    items = []
    n1 = len(l1) + len(l1d)
    for lo in range(0, n1, 400):
        items.append(("L1", lo, min(n1, lo + 400)))
    base = reps1 if tier == "thorough" else S.dedupe(reps1, paths, per_ctor=False)
    n2 = len(base + l1d[:20]) + 2 * len(base + l1d[:20]) * len(base)
    step = 4000 if tier == "quick" else 20000
    for lo in range(0, n2, step):
        items.append(("L2", lo, min(n2, lo + step)))
    if tier == "thorough":
        b0 = S.dedupe(reps1, paths, per_ctor=False)
        l2 = S.dedupe(list(S.close_once(b0, b0)), paths, per_ctor=False)
        n3 = len(l2) + 2 * len(l2) * len(b0)
        for lo in range(0, n3, 20000):
            items.append(("L3", lo, min(n3, lo + 20000)))
    ns3 = len(_shapes(("a", "b"), 3))
    ns2 = len(_shapes(ALPHA, 2))
    st = 100 if tier == "quick" else 60
    for lo in range(0, ns3, st):
        items.append(("S3ab", lo, min(ns3, lo + st)))
    for lo in range(0, ns2, st):
        items.append(("S2abc", lo, min(ns2, lo + st)))
    for pn in ("p1", "p2", "p3", "p4", "p5"):
        nsel = 400
        stp = 25 if tier == "quick" else 40
        for lo in range(0, nsel, stp):
            items.append((pn, lo, lo + stp))
    return items


def main(tier, seed):
    t0 = time.time()
    items = _items(tier)
    only = os.environ.get("VERIF_ONLY")
    if only:
        items = [it for it in items if only in str(it)]
    res, errors = H.fan_out("checks.c16", "work", items, tier, seed)
    paths, l0, l1, reps1, l1d = _levels(tier)
    extra = {
        "paths": len(paths),
        "atoms": len(l0),
        "level1_expressions": len(l1) + len(l1d),
        "level1_denotation_classes_x_ctor": len(reps1),
        "work_items": len(items),
    }
    rule = (
        "A: every selection expression over {a,b,c} (atoms none/all/str/1-2-3-tuples/dicts, closed under | ^ ~ to nesting 1 "
        "completely and to nesting 2 (quick) / 3 (thorough) over one representative per denotation class) x every path of depth<=3 "
        "(+4 foreign): real match chain vs denotation; B: every nested-dict choice-map shape (depth<=3 over {a,b}, depth<=2 over {a,b,c}) x "
        "selection representatives: filter/merge partition; C: 5 real programs x representatives: resampled / moved leaves. "
        "states = expressions (A), shapes (B), (program,selection) pairs (C); transitions = membership / filter / GFI calls; "
        "non-trivial = selects a proper non-empty subset"
    )
    assumptions = [
        "address alphabet {a,b,c} (+foreign z), depth<=3: selections only compare names for equality, so three names exercise every branch",
        "level-2/3 closure is over one representative per (denotation class[, constructor]); level<=1 is complete",
    ]
    return H.finish(PROP, tier, seed, "model_checking", res, errors, t0, rule, assumptions, extra)


def replay(path):
    import json

    j = json.load(open(path))
    d = j["detail"]
    print("replaying", j["sig"])
    print(json.dumps(d, indent=1)[:2000])
    # re-evaluate the single case
    from genjax.core import sel  # noqa

    expr = d["expr"]
    s = eval(expr, {"sel": sel})
    if d.get("part") == "A":
        got = S.impl_member(s, tuple(d["path"]))
        print("implementation:", got, "reference:", d["reference"])
        return 0 if got == d["reference"] else 1
    if d.get("part") == "B":
        from genjax import gen

        fn = gen(lambda: None)
        x = {}
        for p in d["choice_map_leaves"]:
            cur = x
            for k in p[:-1]:
                cur = cur.setdefault(k, {})
            cur[p[-1]] = np.float32(1.0)
        a, b = fn.filter(x, s)
        got = sorted(list(p) for p in _flatten(a))
        print("filter selected:", got, "reference:", d["reference_selected"])
        return 0 if got == d["reference_selected"] else 1
    print("part C cases are replayed by: run.py --prop C16 --only", d.get("program"))
    return 1
