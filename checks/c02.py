"""C02  generate honours constraints and returns the proper importance weight.

program x args x EVERY subset S of the leaf address paths (incl. none / None / all, partial
maps inside Vmap/Scan/Cond sub-calls, whole sub-calls missing) x constrained values from the
menus x the full choice tree of the unconstrained part (jit(seed(generate)), scripted).
Leaf oracle: constrained values bit-identical; coherent trace; sampler events == exactly the
reference's unconstrained sites with conditional-prior parameters; weight == sum over S of
the reference's per-address log densities (== assess when S is everything, == 0 when empty).
Tree oracle (discrete programs): sum_leaves P_ref * exp(weight) == brute-force marginal of
the constrained values -- exact unbiasedness.
"""

from __future__ import annotations

import itertools
import os
import time

import numpy as np

from mc import harness as H

PROP = "C02"


def _subsets(paths, tier):
    k = len(paths)
    out = []
    for r in range(k + 1):
        for c in itertools.combinations(range(k), r):
            out.append(tuple(paths[i] for i in c))
    return out


def _base_choice_maps(prog, args, fn, key, jargs, tier, res):
    """Complete choice maps that supply constrained values: extreme corners of the menu
    product (first / last value at every site), obtained from the real simulate tree."""
    import jax
    from genjax import seed as gseed
    from mc import env, gfi
    from mc import ref as R

    sim = jax.jit(gseed(fn.simulate))
    outs = []
    for pick in (0, -1) if tier == "quick" else (0, -1, 1):
        D = {}
        for _ in range(200):
            tr, evs = env.run_recorded(sim, key, *jargs, mode="script", decisions=D)
            res.evaluations += 1
            from mc.tree import _undecided, _with

            nxt = _undecided(evs)
            if nxt is None:
                break
            ev, lane = nxt
            m = gfi.std_menu(ev, lane)
            D = _with(D, ev.key, lane, m[pick % len(m)][0])
        outs.append(R.to_numpy(tr.get_choices()))
    # dedupe
    uniq = []
    for c in outs:
        if not any(gfi.tree_bits_equal(c, u) for u in uniq):
            uniq.append(c)
    return uniq


def _ref_marginal(prog, args, base, S, all_paths):
    """Brute force: sum over all completions of the unconstrained discrete leaves."""
    from mc import ref as R

    flat = R.flatten(base)
    free = [p for p in all_paths if p not in S]
    supports = []
    for p in free:
        v = np.asarray(flat[p])
        if v.dtype == np.bool_:
            sup = [np.bool_(False), np.bool_(True)]
        else:
            sup = [np.int32(0), np.int32(1), np.int32(2)]
        supports.append([np.asarray(c, v.dtype).reshape(v.shape) for c in itertools.product(sup, repeat=v.size)])
    total = 0.0
    n = 0
    for combo in itertools.product(*supports):
        f2 = dict(flat)
        for p, val in zip(free, combo):
            f2[p] = val
        try:
            total += float(np.exp(R.run(prog, args, R.unflatten(f2)).logp))
        except Exception:
            pass
        n += 1
    return total, n


def work(item, tier, seed):
    import jax
    import jax.numpy as jnp
    from genjax import seed as gseed
    from genjax.core import handler_stack
    from mc import env, tree, gfi
    from mc import ref as R
    from mc import lang as L
    from mc.family import FAMILY
    from checks.c01 import _all_sites

    env.install()
    res = H.Result()
    pname, ai, chunk, nchunks = item
    prog, argsl, _t = FAMILY[pname]
    args = argsl[ai]
    fn = L.compile_prog(prog)
    key = jax.random.key(seed * 104729 + 5)
    jargs = tuple(jnp.asarray(a) for a in args)
    paths = R.leaf_paths(prog)
    discrete = all(R.DISTS[s.dist].discrete for s in _all_sites(prog))
    try:
        bases = _base_choice_maps(prog, args, fn, key, jargs, tier, res)
    except Exception as ex:
        handler_stack.clear()
        res.violate(PROP, f"simulate-raises:{pname}", program=pname, error=f"{type(ex).__name__}: {str(ex)[:300]}")
        res.states += 1
        res.transitions += 1
        return res
    subsets = _subsets(paths, tier)
    kmax = 5 if tier == "quick" else 7
    if len(paths) > kmax:
        # bound: all subsets of size <= 2 and >= k-1 plus every sub-call-aligned subset
        subsets = [S for S in subsets if len(S) <= 2 or len(S) >= len(paths) - 1]
        res.notes["subset_bound_hit"] = [pname]
    subsets = [S for i, S in enumerate(subsets) if i % nchunks == chunk]
    raised = set()
    gen_cache = {}
    for S in subsets:
        variants = [("dict", S)]
        if not S:
            variants.append(("None", S))
        for how, S in variants:
            for bi, base in enumerate(bases):
                flatb = R.flatten(base)
                cons = None if how == "None" else R.unflatten({p: flatb[p] for p in S})
                jcons = None if cons is None else jax.tree_util.tree_map(jnp.asarray, cons)
                sigS = "+".join("/".join(p) for p in S) or ("None" if how == "None" else "{}")
                try:
                    # one compiled function per constraint structure, shared by the base choice maps
                    if sigS not in gen_cache:
                        gen_cache[sigS] = jax.jit(lambda k, c, *a: gseed(fn.generate)(k, c, *a))
                    gen = gen_cache[sigS]
                    env.run_recorded(gen, key, jcons, *jargs)
                except Exception as ex:
                    handler_stack.clear()
                    if (pname, sigS) not in raised:
                        raised.add((pname, sigS))
                        res.violate(PROP, f"generate-raises:{pname}:{sigS}", program=pname, args=args, constraints=R.flatten(cons) if cons else None, error=f"{type(ex).__name__}: {str(ex)[:300]}")
                    res.states += 1
                    res.transitions += 1
                    continue

                def run(D, gen=gen, jcons=jcons):
                    out, evs = env.run_recorded(gen, key, jcons, *jargs, mode="script", decisions=D)
                    res.evaluations += 1
                    return out, evs

                acc = [0.0]

                def on_leaf(leaf, S=S, flatb=flatb, cons=cons, sigS=sigS, acc=acc):
                    tr, w = leaf.out
                    w = float(np.asarray(w))
                    det = {"constraints": R.flatten(cons) if cons else None, "decisions": tree.D_json(leaf.D)}
                    ro = gfi.check_coherent(res, PROP, "generate", pname, prog, args, {}, tr, detail=det)
                    res.validated += 1
                    res.states += 1
                    if ro is None:
                        return
                    choices = gfi.np_choices(tr)
                    flat = R.flatten(choices)
                    for p in S:
                        if not H.bits_equal(flat[p], flatb[p]):
                            res.violate(PROP, f"constraint-not-honoured:{pname}:{sigS}", program=pname, args=args, address=p, constrained=flatb[p], in_trace=flat[p], **det)
                    plp = R.path_logp(ro)
                    want = sum(plp[p] for p in S)
                    if not H.close(w, want):
                        res.violate(PROP, f"weight:{pname}:{sigS}", program=pname, args=args, weight=w, reference=want, choices=flat, **det)
                    exp_sites = [s for s in ro.sites if s.path not in S]
                    gfi.check_events(res, PROP, f"generate[{sigS}]", pname, leaf.events, exp_sites, ro.optional, detail=dict(det, program=pname, args=args, choices=flat))
                    acc[0] += leaf.prob * np.exp(w)
                    res.case(pname, ai, sigS, bi, gfi.outcome_key(flat))
                    if res.states % 501 == 1:
                        res.add_sample({"program": pname, "args": args, "constrained": [list(p) for p in S], "path": tree.path_json(leaf), "weight": w, "reference_weight": want})

                leaves_seen = []
                _on_leaf = on_leaf

                def on_leaf2(leaf, _on_leaf=_on_leaf, leaves_seen=leaves_seen):
                    _on_leaf(leaf)
                    if len(leaves_seen) < 2 or tier == "thorough" and len(leaves_seen) < 6:
                        leaves_seen.append(leaf)
                    else:
                        leaves_seen[-1] = leaf  # keep first and last

                st = tree.explore(run, gfi.std_menu, on_leaf2, max_leaves=20000 if tier == "quick" else 100000, check_determinism=False)
                # the same decision tables replayed eagerly (no jit): same trace, same weight
                for leaf in leaves_seen:
                    try:
                        (etr, ew), _evs = env.run_recorded(gseed(fn.generate), key, jcons, *jargs, mode="script", decisions=leaf.D)
                        res.evaluations += 1
                        res.transitions += 1
                        jtr, jw = leaf.out
                        if not gfi.tree_bits_equal(R.to_numpy(etr.get_choices()), R.to_numpy(jtr.get_choices())):
                            res.violate(PROP, f"eager-vs-jit-choices:{pname}:{sigS}", program=pname, args=args, constraints=R.flatten(cons) if cons else None, decisions=tree.D_json(leaf.D))
                        if not H.close(np.asarray(ew), np.asarray(jw), rtol=1e-5, atol=1e-5):
                            res.violate(PROP, f"eager-weight:{pname}:{sigS}", program=pname, args=args, constraints=R.flatten(cons) if cons else None, eager_weight=np.asarray(ew), jit_weight=np.asarray(jw), decisions=tree.D_json(leaf.D))
                        gfi.check_coherent(res, PROP, "generate-eager", pname, prog, args, {}, etr, detail={"config": "eager"})
                    except Exception as ex:
                        handler_stack.clear()
                        res.violate(PROP, f"generate-eager-raises:{pname}:{sigS}", program=pname, args=args, error=f"{type(ex).__name__}: {str(ex)[:300]}")
                        break
                res.transitions += st.nodes
                res.capped |= st.capped
                if not st.capped:
                    if abs(st.total_prob - 1.0) > 1e-6:
                        res.violate(PROP, f"tree-mass:{pname}:{sigS}", total=st.total_prob, program=pname)
                    if discrete:
                        marg, n = _ref_marginal(prog, args, base, S, paths)
                        res.notes["marginals_checked"] = res.notes.get("marginals_checked", 0) + 1
                        if not H.close(acc[0], marg, rtol=2e-4, atol=1e-7):
                            res.violate(PROP, f"unbiasedness:{pname}:{sigS}", program=pname, args=args, constraints=R.flatten(cons) if cons else None, expectation_of_exp_weight=acc[0], reference_marginal=marg)
    return res


def items(tier):
    from mc.family import FAMILY, QUICK_GENERATED, programs, tree_size
    from mc import ref as R

    its = []
    # programs whose full choice tree exceeds 5000 leaves are explored by C01/C08 only (every subset /
    # selection multiplies the tree)
    for pname in programs(tier, max_tree=5000):
        if "[" in pname and pname not in QUICK_GENERATED and (pname.count("[") > 1 or tree_size(pname) > 100):
            continue  # generated compositions: depth 1 with small trees here; all of them in C01 / C03
        prog, argsl, _t = FAMILY[pname]
        k = len(R.leaf_paths(prog))
        nch = 1 if k <= 2 else 2 if k == 3 else 4
        if tier == "thorough":
            nch *= 2
        for ai in range(len(argsl)):
            for c in range(nch):
                its.append((pname, ai, c, nch))
    return its


def main(tier, seed):
    t0 = time.time()
    its = items(tier)
    only = os.environ.get("VERIF_ONLY")
    if only:
        its = [it for it in its if only in str(it)]
    res, errors = H.fan_out("checks.c02", "work", its, tier, seed)
    rule = (
        "for each (program, args): every subset S of the leaf address paths (2^k, k<=5 quick / 7 thorough; larger k: |S|<=2 or >=k-1) as "
        "constraint map (also None), constrained values from the corners of the menu product, full choice tree of the unconstrained sites "
        "under jit(seed(generate)); states = leaves, transitions = real executions; distinct by (program,args,S,base,choices)"
    )
    assumptions = ["continuous sites answered from a fixed grid; exact unbiasedness is summed for all-discrete programs only"]
    return H.finish(PROP, tier, seed, "model_checking", res, errors, t0, rule, assumptions, {"work_items": len(its)})


def replay(path):
    import json

    j = json.load(open(path))
    print(json.dumps(j, indent=1)[:3000])
    os.environ["VERIF_ONLY"] = f"'{j['detail'].get('program')}'"
    return main("quick", int(os.environ.get("VERIF_SEED", "0") or 0))
