"""C13  Distributions: documented parameters, normalised density, matching sampler.

Bounded exhaustive enumeration (nothing is sampled for a statistic):

 1. logpdf.  For each of the 24 exports of genjax.distributions (+ two user-wrapped ones) a
    Cartesian grid of 3-5 parameter points x 7-15 support points (the whole support where it
    is finite) is evaluated through five call shapes -- scalar eager, scalar jitted, values
    batched, values+parameters batched (the flattened grid in ONE call), and inside
    `modular_vmap` (all axes mapped / only the value mapped) -- and every number is compared
    with an independent float64 reference (scipy.stats / closed forms) written against the
    DOCUMENTED parameterisation (docstrings of /repo/src/genjax/distributions.py and the
    property text): positional parameters in documented order, and every documented
    alternative keyword (`probs=`, `log_rate=`, `scale=`, documented defaults ...).
 2. normalisation.  Discrete: the finite sum over the whole support, or a truncated sum with
    an analytic tail bound (stated per distribution, always < 1e-5).  Continuous univariate:
    `scipy.integrate.quad` of exp(logpdf) over the support, split at the bulk of the mass.
    multivariate_normal k=2 / k=3: tensor trapezoid rule on a +-9 sigma / +-7 sigma box,
    dirichlet k=3: tensor Gauss-Legendre rule on the simplex (Duffy map), k=2: quad.
    All deterministic; required |total - 1| <= 1e-4.
 3. sampler == density object.  `seed(dist.sample)(key, *params)` -- plain, with
    `sample_shape=(3,)`, under `modular_vmap` with batched parameters, under `modular_vmap`
    with `axis_size=3` -- over 8 (quick) / 32 (thorough) root keys x the parameter grid.  The
    sampler seam (mc/env.py) records the site's concrete key, arguments, sample_shape and raw
    draw.  Required: exactly one site event with the documented name; its arguments are the
    parameters passed; the returned value IS the site's draw; shape = sample_shape + batch +
    event shape; dtype as documented; every element lies in the support and has a finite
    logpdf that equals the reference density there; and the draw is bit-identical to
    `tfd.X(<documented keyword names>=params).sample(seed=site key, sample_shape=...)` built
    independently here; distinct root keys give distinct site keys and not all equal draws.
 4. the same for `tfp_distribution(lambda mu: tfd.Normal(mu, 2.0))` and for a hand-written
    logistic distribution built with `distribution(wrap_sampler(..), wrap_logpdf(..))`.

Execution: work items are (distribution, "density" | "sampler") pairs.  In part 3 both sides are
jit-compiled once per call shape with identical compiler options (eager TFP rejection samplers
cost 2-9 s per draw); a bit mismatch between the two compiled programs is re-run eagerly on both
sides (op by op) and only counts if it persists; a few cases per distribution run eagerly anyway.
Quick tier, for the 11 distributions with rejection-loop samplers (HEAVY): modular_vmap(axis_size)
and the plain batched-parameter call are left to the thorough tier.

Violations on the unchanged tree are documentation/implementation disagreements (signatures
`documented-keyword:*`, `documented-default:*`, `logpdf:negative_binomial`); see the final report.

Limit (DESIGN section 4): that TFP's sampler realises TFP's density over all 2^64 keys is
trusted; what is decided is that sampler and density are the same documented object.
"""

from __future__ import annotations

import itertools
import math
import os
import time
import warnings
from dataclasses import dataclass, field

import numpy as np

from mc import harness as H

PROP = "C13"
INF = float("inf")

BUILTIN = [
    "bernoulli", "flip", "beta", "categorical", "geometric", "normal", "uniform", "exponential",
    "poisson", "multivariate_normal", "dirichlet", "binomial", "gamma", "log_normal", "student_t",
    "laplace", "half_normal", "inverse_gamma", "weibull", "cauchy", "chi2", "multinomial",
    "negative_binomial", "zipf",
]
USER = ["user_tfp", "user_custom"]
# samplers built on rejection / while loops: 2-7 s of XLA compile per call shape, 2-9 s per eager draw
HEAVY = ["beta", "dirichlet", "gamma", "chi2", "inverse_gamma", "student_t", "negative_binomial", "binomial", "multinomial", "poisson", "zipf"]
# both sides of the bit-identity comparison are compiled with the same options (cheaper LLVM pipeline)
JIT_OPTS = {"xla_llvm_disable_expensive_passes": True}


def _jit(f):
    import jax

    try:
        return jax.jit(f, compiler_options=JIT_OPTS)
    except TypeError:
        return jax.jit(f)


# ------------------------------------------------------------------ reference helpers (float64)


def _sigmoid(x):
    return 1.0 / (1.0 + math.exp(-x))


def _log_softmax(l):
    l = np.asarray(l, np.float64)
    m = l.max()
    return l - (m + math.log(np.exp(l - m).sum()))


def _compositions(n, k):
    if k == 1:
        return [(n,)]
    return [(i,) + r for i in range(n + 1) for r in _compositions(n - i, k - 1)]


@dataclass
class Alt:
    """A documented alternative way of passing the parameters (keyword / default)."""

    label: str  # e.g. "probs"
    sig: str  # "documented-keyword" | "documented-default"
    cases: list  # [(pos_args tuple, kwargs dict, support list, ref(v) -> float)]
    mk: object = None  # (tfd, jnp, pos, kw) -> independent tfd object (None: no sampler check)


@dataclass
class Spec:
    dist: str  # work item / attribute of genjax.distributions
    variant: str
    site: str  # documented sampler name
    kw: tuple  # documented parameter names in positional order
    params: list  # parameter points (tuples, positional order)
    support: object  # list of values or callable(*p) -> list
    ref: object  # (v, *p) -> float64 log density under the DOCUMENTED parameterisation
    kind: str  # "cont" | "disc"
    vdtype: str  # dtype of values handed to logpdf and documented dtype of draws
    insupport: object  # (x ndarray of one draw, *p) -> bool
    norm: object = None  # (ctx, p) -> (total, tail_bound, how)   None: see norm_note
    norm_params: object = None  # subset of params used for normalisation (default: all)
    norm_note: str = ""
    event_ndims: int = 0
    mk: object = None  # (tfd, jnp, *params) -> tfd object built from DOCUMENTED keyword names
    alts: list = field(default_factory=list)
    build: object = None  # () -> genjax Distribution (user-wrapped); None: getattr(distributions, dist)
    doc_dtype: str = ""  # where the dtype comes from (reporting only)
    param_event_ndims: object = None  # event rank of each parameter (default: scalars)


# ------------------------------------------------------------------ normalisation machinery


def _quad_pieces(pieces):
    """Normaliser: adaptive Gauss-Kronrod over the given consecutive pieces of the support."""

    def norm(ctx, p):
        from scipy import integrate

        f = ctx["pdf1"](p)
        tot = 0.0
        with warnings.catch_warnings():
            warnings.simplefilter("ignore")
            for a, b in pieces(*p):
                v, _err = integrate.quad(f, a, b, epsabs=1e-7, epsrel=1e-7, limit=60)
                tot += v
        return tot, 0.0, "scipy.integrate.quad over " + "+".join(f"[{a:.4g},{b:.4g}]" for a, b in pieces(*p))

    return norm


def _sum_range(lo, hi_fn, tail_fn, how):
    """Normaliser for integer supports: sum k = lo..hi(p); tail_fn(p, hi) bounds the rest."""

    def norm(ctx, p):
        hi = int(hi_fn(*p))
        ks = np.arange(lo, hi + 1)
        lp = ctx["logpdf_values"](ks, p)
        tot = float(np.sum(np.exp(np.asarray(lp, np.float64))))
        return tot, float(tail_fn(p, hi)), f"sum k={lo}..{hi}; {how}"

    return norm


def _sum_list(how):
    def norm(ctx, p):
        vs = ctx["support"](p)
        lp = ctx["logpdf_values"](vs, p)
        return float(np.sum(np.exp(np.asarray(lp, np.float64)))), 0.0, f"finite sum over all {len(vs)} support points; {how}"

    return norm


def _mvn_grid(ctx, p):
    """Tensor trapezoid rule on loc +- R*sigma_i (the integrand decays to < 1e-17 at the faces)."""
    loc, cov = np.asarray(p[0], np.float64), np.asarray(p[1], np.float64)
    k = loc.shape[0]
    R, n = (9.0, 241) if k == 2 else (7.0, 81)
    sd = np.sqrt(np.diag(cov))
    axes = [np.linspace(loc[i] - R * sd[i], loc[i] + R * sd[i], n) for i in range(k)]
    h = np.prod([a[1] - a[0] for a in axes])
    pts = np.stack([g.reshape(-1) for g in np.meshgrid(*axes, indexing="ij")], axis=-1)
    tot = 0.0
    for lo in range(0, pts.shape[0], 65536):
        lp = ctx["logpdf_values"](pts[lo : lo + 65536], p)
        tot += float(np.sum(np.exp(np.asarray(lp, np.float64))))
    return tot * h, 0.0, f"{k}-d trapezoid rule, {n}^{k} nodes on loc +- {R:g} sigma"


def _dirichlet_quad(ctx, p):
    conc = np.asarray(p[0], np.float64)
    k = conc.shape[0]
    if k == 2:
        from scipy import integrate

        def f(t):
            t32 = np.float32(t)
            lp = ctx["logpdf_values"](np.asarray([[t32, np.float32(1.0) - t32]], np.float32), p)
            return float(np.exp(np.float64(np.asarray(lp)[0])))

        with warnings.catch_warnings():
            warnings.simplefilter("ignore")
            a, _ = integrate.quad(f, 0.0, 0.5, epsabs=1e-7, epsrel=1e-7, limit=60)
            b, _ = integrate.quad(f, 0.5, 1.0, epsabs=1e-7, epsrel=1e-7, limit=60)
        return a + b, 0.0, "quad over x1 in [0,1], x=(x1,1-x1)"
    # k == 3: x1 = u, x2 = (1-u) v, x3 = (1-u)(1-v); |J| = (1-u); Gauss-Legendre 64 x 64
    g, w = np.polynomial.legendre.leggauss(64)
    g, w = 0.5 * (g + 1.0), 0.5 * w
    U, V = np.meshgrid(g, g, indexing="ij")
    W = np.outer(w, w) * (1.0 - U)
    x = np.stack([U, (1 - U) * V, (1 - U) * (1 - V)], axis=-1).reshape(-1, 3)
    lp = ctx["logpdf_values"](x, p)
    return float(np.sum(np.exp(np.asarray(lp, np.float64)) * W.reshape(-1))), 0.0, "64x64 Gauss-Legendre on the 2-simplex (Duffy map)"


# ------------------------------------------------------------------ the table


def _specs():
    """All specs.  Built lazily (scipy / jax imports) inside the worker."""
    from scipy import special as sp
    from scipy import stats as st

    S = []
    isint = lambda x: np.all(np.asarray(x, np.float64) == np.round(np.asarray(x, np.float64)))

    # ---- bernoulli: positional = logits (first documented Arg); probs= documented alternative
    def bern_ref(v, l):
        p = _sigmoid(l)
        return math.log(p) if int(v) == 1 else math.log1p(-p)

    def bern_p(p):
        return lambda v: math.log(p) if int(v) == 1 else math.log1p(-p)

    S.append(Spec(
        "bernoulli", "", "Bernoulli", ("logits",), [(-2.0,), (-0.4,), (0.0,), (1.3,)], [0, 1], bern_ref, "disc", "int32",
        lambda x, l: np.all((x == 0) | (x == 1)), norm=_sum_list("support {0,1}"),
        alts=[Alt("probs", "documented-keyword", [((), {"probs": q}, [0, 1], bern_p(q)) for q in (0.05, 0.3, 0.5, 0.95)],
                  mk=lambda tfd, jnp, pos, kw: tfd.Bernoulli(probs=kw["probs"]))],
        doc_dtype="docstring: support {0,1}; TFP default int32",
    ))

    # ---- flip: probability -> bool
    S.append(Spec(
        "flip", "", "Flip", ("p",), [(0.05,), (0.3,), (0.5,), (0.95,)], [False, True],
        lambda v, p: math.log(p) if bool(v) else math.log1p(-p), "disc", "bool",
        lambda x, p: x.dtype == np.bool_, norm=_sum_list("support {False,True}"),
        mk=lambda tfd, jnp, p: tfd.Bernoulli(probs=p, dtype=jnp.bool_), doc_dtype="docstring: boolean output",
    ))

    # ---- beta
    S.append(Spec(
        "beta", "", "Beta", ("concentration1", "concentration0"), [(1.0, 1.0), (2.0, 3.0), (0.7, 1.5), (5.0, 0.9), (4.0, 4.0)],
        [0.01, 0.1, 0.25, 0.4, 0.5, 0.6, 0.75, 0.9, 0.99], lambda v, a, b: st.beta(a, b).logpdf(v), "cont", "float32",
        lambda x, a, b: np.all((x >= 0) & (x <= 1)),
        norm=_quad_pieces(lambda a, b: [(0.0, a / (a + b)), (a / (a + b), 1.0)]),
        norm_params=[(1.0, 1.0), (2.0, 3.0), (0.7, 1.5), (4.0, 4.0)],
        norm_note="(5,0.9) left out of the quadrature: the x->1 singularity is not resolvable on the float32 grid of x",
    ))

    # ---- categorical: logits (unnormalised on purpose)
    cat_params = [((0.0, 0.0, 0.0, 0.0),), ((-1.0, 0.5, 2.0, 0.0),), ((3.0, -2.0, 0.1, 1.0),), (tuple(np.log([0.1, 0.2, 0.3, 0.4])),)]
    S.append(Spec(
        "categorical", "K4", "Categorical", ("logits",), cat_params, [0, 1, 2, 3], lambda v, l: float(_log_softmax(l)[int(v)]),
        "disc", "int32", lambda x, l: np.all((x >= 0) & (x < len(l))) and isint(x), norm=_sum_list("support {0..K-1}"), doc_dtype="TFP default int32",
    ))
    S[-1].param_event_ndims = (1,)

    # ---- geometric: failures before the first success (property text; TFP); positional = logits
    def geo_ref(v, l):
        p = _sigmoid(l)
        return v * math.log1p(-p) + math.log(p)

    def geo_p(p):
        return lambda v: v * math.log1p(-p) + math.log(p)

    S.append(Spec(
        "geometric", "", "Geometric", ("logits",), [(-1.5,), (0.0,), (0.8,), (2.0,)], [0.0, 1.0, 2.0, 3.0, 5.0, 8.0, 13.0], geo_ref, "disc",
        "float32", lambda x, l: np.all(x >= 0) and isint(x),
        norm=_sum_range(0, lambda l: 250, lambda p, hi: (1 - _sigmoid(p[0])) ** (hi + 1), "tail = (1-p)^(N+1) <= 0.818^251 < 1e-21"),
        alts=[Alt("probs", "documented-keyword", [((), {"probs": q}, [0.0, 1.0, 2.0, 5.0, 9.0], geo_p(q)) for q in (0.1, 0.25, 0.6, 0.9)],
                  mk=lambda tfd, jnp, pos, kw: tfd.Geometric(probs=kw["probs"]))],
        doc_dtype="undocumented; TFP: dtype of the parameter",
    ))

    # ---- normal
    S.append(Spec(
        "normal", "", "Normal", ("loc", "scale"), [(0.0, 1.0), (-1.2, 0.5), (0.3, 2.0), (5.0, 0.1)],
        [-3.0, -1.5, -0.5, 0.0, 0.3, 1.0, 2.5, 4.9, 5.0, 5.2], lambda v, m, s: st.norm(m, s).logpdf(v), "cont", "float32",
        lambda x, m, s: np.all(np.isfinite(x)),
        norm=_quad_pieces(lambda m, s: [(-INF, m - 8 * s), (m - 8 * s, m), (m, m + 8 * s), (m + 8 * s, INF)]),
    ))

    # ---- uniform: support [low, high] (closed, as documented)
    S.append(Spec(
        "uniform", "", "Uniform", ("low", "high"), [(0.0, 1.0), (-1.0, 2.0), (1.5, 1.75), (-3.0, -2.5)],
        lambda a, b: [a + (b - a) * t for t in (0.0, 0.015625, 0.25, 0.5, 0.75, 0.984375, 1.0)],
        lambda v, a, b: st.uniform(a, b - a).logpdf(v), "cont", "float32", lambda x, a, b: np.all((x >= a) & (x <= b)),
        norm=_quad_pieces(lambda a, b: [(a, 0.5 * (a + b)), (0.5 * (a + b), b)]),
    ))

    # ---- exponential: rate; docstring also promises scale=
    S.append(Spec(
        "exponential", "", "Exponential", ("rate",), [(0.3,), (1.0,), (2.5,), (7.0,)], [0.0, 0.01, 0.1, 0.5, 1.0, 2.0, 5.0, 10.0],
        lambda v, r: math.log(r) - r * v, "cont", "float32", lambda x, r: np.all(x >= 0),
        norm=_quad_pieces(lambda r: [(0.0, 1 / r), (1 / r, 10 / r), (10 / r, INF)]),
        alts=[Alt("scale", "documented-keyword", [((), {"scale": s}, [0.0, 0.1, 1.0, 3.0], (lambda s: lambda v: -math.log(s) - v / s)(s)) for s in (0.5, 2.0)])],
    ))

    # ---- poisson: rate; log_rate= documented alternative
    S.append(Spec(
        "poisson", "", "Poisson", ("rate",), [(0.2,), (1.0,), (3.5,), (9.0,)], [0.0, 1.0, 2.0, 3.0, 5.0, 8.0, 13.0, 21.0],
        lambda v, r: st.poisson(r).logpmf(v), "disc", "float32", lambda x, r: np.all(x >= 0) and isint(x),
        norm=_sum_range(0, lambda r: 120, lambda p, hi: st.poisson(p[0]).sf(hi), "tail = P(X>120) <= e^-9 9^121/121! < 1e-80"),
        alts=[Alt("log_rate", "documented-keyword", [((), {"log_rate": lr}, [0.0, 1.0, 2.0, 4.0, 9.0], (lambda lr: lambda v: st.poisson(math.exp(lr)).logpmf(v))(lr)) for lr in (-1.0, 0.3, 1.5)],
                  mk=lambda tfd, jnp, pos, kw: tfd.Poisson(log_rate=kw["log_rate"]))],
        doc_dtype="undocumented; TFP: dtype of the parameter",
    ))

    # ---- multivariate_normal: covariance matrix
    def mvn_ref(v, m, c):
        return float(st.multivariate_normal(np.asarray(m, np.float64), np.asarray(c, np.float64)).logpdf(np.asarray(v, np.float64)))

    def mvn_mk(tfd, jnp, m, c):
        # independent construction: lower Cholesky factor of the documented covariance
        return tfd.MultivariateNormalTriL(loc=m, scale_tril=jnp.linalg.cholesky(c))

    mvn2 = [((0.0, 0.0), ((1.0, 0.0), (0.0, 1.0))), ((1.0, -2.0), ((2.0, 0.6), (0.6, 0.5))), ((-0.5, 0.3), ((0.3, -0.2), (-0.2, 1.5)))]
    pts2 = [(0.0, 0.0), (1.0, -2.0), (-0.5, 0.3), (0.7, 0.7), (-1.5, 1.0), (2.0, -3.0), (0.1, -0.9), (3.0, 2.0), (-2.5, -2.5)]
    S.append(Spec(
        "multivariate_normal", "k2", "MultivariateNormal", ("loc", "covariance_matrix"), mvn2, pts2, mvn_ref, "cont", "float32",
        lambda x, m, c: np.all(np.isfinite(x)), norm=_mvn_grid, event_ndims=1, mk=mvn_mk,
    ))
    S[-1].param_event_ndims = (1, 2)
    mvn3 = [((0.0, 1.0, -1.0), ((1.0, 0.3, 0.0), (0.3, 2.0, -0.4), (0.0, -0.4, 0.5))), ((0.5, 0.5, 0.5), ((0.4, 0.0, 0.1), (0.0, 0.4, 0.0), (0.1, 0.0, 0.9))),
            ((-1.0, 0.0, 2.0), ((1.5, -0.5, 0.2), (-0.5, 1.0, 0.3), (0.2, 0.3, 0.7)))]
    pts3 = [(0.0, 1.0, -1.0), (0.5, 0.5, 0.5), (-1.0, 0.0, 2.0), (1.0, 1.0, 1.0), (-2.0, 2.0, 0.0), (0.2, -0.7, 1.4), (3.0, -1.0, -2.0)]
    S.append(Spec(
        "multivariate_normal", "k3", "MultivariateNormal", ("loc", "covariance_matrix"), mvn3, pts3, mvn_ref, "cont", "float32",
        lambda x, m, c: np.all(np.isfinite(x)), norm=_mvn_grid, event_ndims=1, mk=mvn_mk,
    ))
    S[-1].param_event_ndims = (1, 2)

    # ---- dirichlet (density w.r.t. Lebesgue measure on the first k-1 coordinates)
    def dir_ref(v, a):
        a = np.asarray(a, np.float64)
        v = np.asarray(v, np.float64)
        return float(sp.gammaln(a.sum()) - sp.gammaln(a).sum() + ((a - 1.0) * np.log(v)).sum())

    on_simplex = lambda x, a: np.all(x >= 0) and np.all(np.abs(x.sum(-1) - 1.0) < 1e-5)
    dir3 = [((1.0, 1.0, 1.0),), ((2.0, 3.0, 4.0),), ((1.5, 2.5, 1.0),), ((0.8, 1.2, 3.0),)]
    spts3 = [(0.25, 0.25, 0.5), (0.125, 0.375, 0.5), (0.5, 0.25, 0.25), (0.0625, 0.0625, 0.875), (0.75, 0.125, 0.125), (0.3125, 0.5, 0.1875), (0.015625, 0.484375, 0.5), (0.34375, 0.328125, 0.328125)]
    S.append(Spec(
        "dirichlet", "k3", "Dirichlet", ("concentration",), dir3, spts3, dir_ref, "cont", "float32", on_simplex, norm=_dirichlet_quad,
        norm_params=dir3[:3], norm_note="(0.8,1.2,3.0) left out of the quadrature (x1^-0.2 edge singularity, fixed Gauss rule)", event_ndims=1,
    ))
    S[-1].param_event_ndims = (1,)
    dir2 = [((1.0, 1.0),), ((2.0, 3.0),), ((0.7, 1.5),)]
    spts2 = [(t, 1.0 - t) for t in (0.015625, 0.125, 0.25, 0.5, 0.625, 0.875, 0.984375)]
    S.append(Spec("dirichlet", "k2", "Dirichlet", ("concentration",), dir2, spts2, dir_ref, "cont", "float32", on_simplex, norm=_dirichlet_quad, event_ndims=1))
    S[-1].param_event_ndims = (1,)

    # ---- binomial: positional = (total_count, logits); probs= documented alternative
    S.append(Spec(
        "binomial", "", "Binomial", ("total_count", "logits"), [(1.0, 0.0), (4.0, -1.0), (7.0, 0.7), (10.0, 2.0)],
        lambda n, l: [float(k) for k in range(int(n) + 1)], lambda v, n, l: st.binom(int(n), _sigmoid(l)).logpmf(v), "disc", "float32",
        lambda x, n, l: np.all((x >= 0) & (x <= n)) and isint(x), norm=_sum_list("support {0..n}"),
        alts=[Alt("probs", "documented-keyword", [((n,), {"probs": q}, [float(k) for k in range(int(n) + 1)], (lambda n, q: lambda v: st.binom(int(n), q).logpmf(v))(n, q)) for n, q in ((3.0, 0.2), (6.0, 0.5), (5.0, 0.85))],
                  mk=lambda tfd, jnp, pos, kw: tfd.Binomial(total_count=pos[0], probs=kw["probs"]))],
        doc_dtype="undocumented; TFP: dtype of the parameter",
    ))

    # ---- gamma: concentration, rate; docstring also promises scale=
    S.append(Spec(
        "gamma", "", "Gamma", ("concentration", "rate"), [(0.7, 0.5), (1.0, 1.0), (2.5, 2.0), (4.0, 0.8)], [0.01, 0.1, 0.5, 1.0, 2.0, 4.0, 8.0, 15.0],
        lambda v, a, r: st.gamma(a, scale=1.0 / r).logpdf(v), "cont", "float32", lambda x, a, r: np.all(x > 0),
        norm=_quad_pieces(lambda a, r: [(0.0, a / r), (a / r, (a + 12 * math.sqrt(a) + 12) / r), ((a + 12 * math.sqrt(a) + 12) / r, INF)]),
        alts=[Alt("rate", "documented-keyword", [((a,), {"rate": r}, [0.1, 1.0, 4.0], (lambda a, r: lambda v: st.gamma(a, scale=1.0 / r).logpdf(v))(a, r)) for a, r in ((2.0, 0.5), (3.0, 2.0))],
                  mk=lambda tfd, jnp, pos, kw: tfd.Gamma(concentration=pos[0], rate=kw["rate"])),
              Alt("scale", "documented-keyword", [((a,), {"scale": s}, [0.1, 1.0, 4.0], (lambda a, s: lambda v: st.gamma(a, scale=s).logpdf(v))(a, s)) for a, s in ((2.0, 0.5), (3.0, 2.0))])],
    ))

    # ---- log_normal
    S.append(Spec(
        "log_normal", "", "LogNormal", ("loc", "scale"), [(0.0, 1.0), (-0.5, 0.4), (1.0, 0.7), (0.3, 1.5)], [0.01, 0.1, 0.5, 1.0, 2.0, 4.0, 8.0, 20.0],
        lambda v, m, s: st.lognorm(s=s, scale=math.exp(m)).logpdf(v), "cont", "float32", lambda x, m, s: np.all(x > 0),
        norm=_quad_pieces(lambda m, s: [(0.0, math.exp(m - 4 * s)), (math.exp(m - 4 * s), math.exp(m)), (math.exp(m), math.exp(m + 4 * s)), (math.exp(m + 4 * s), INF)]),
    ))

    # ---- student_t: df, loc, scale; docstring promises defaults loc=0, scale=1
    S.append(Spec(
        "student_t", "", "StudentT", ("df", "loc", "scale"), [(1.0, 0.0, 1.0), (2.5, -1.0, 0.5), (5.0, 0.3, 2.0), (30.0, 2.0, 1.5)],
        [-10.0, -3.0, -1.0, -0.2, 0.0, 0.4, 1.0, 2.5, 6.0, 20.0], lambda v, d, m, s: st.t(d, m, s).logpdf(v), "cont", "float32", lambda x, d, m, s: np.all(np.isfinite(x)),
        norm=_quad_pieces(lambda d, m, s: [(-INF, m - 6 * s), (m - 6 * s, m), (m, m + 6 * s), (m + 6 * s, INF)]),
        alts=[Alt("loc,scale", "documented-default", [((d,), {}, [-2.0, 0.0, 0.5, 3.0], (lambda d: lambda v: st.t(d, 0.0, 1.0).logpdf(v))(d)) for d in (1.0, 4.0)])],
    ))

    # ---- laplace
    S.append(Spec(
        "laplace", "", "Laplace", ("loc", "scale"), [(0.0, 1.0), (-1.2, 0.5), (0.3, 2.0), (4.0, 0.2)], [-4.0, -1.2, -0.5, 0.0, 0.3, 1.0, 2.5, 3.9, 4.0, 6.0],
        lambda v, m, s: st.laplace(m, s).logpdf(v), "cont", "float32", lambda x, m, s: np.all(np.isfinite(x)),
        norm=_quad_pieces(lambda m, s: [(-INF, m - 12 * s), (m - 12 * s, m), (m, m + 12 * s), (m + 12 * s, INF)]),
    ))

    # ---- half_normal
    S.append(Spec(
        "half_normal", "", "HalfNormal", ("scale",), [(0.5,), (1.0,), (2.0,), (3.5,)], [0.0, 0.01, 0.3, 1.0, 2.0, 4.0, 7.0],
        lambda v, s: st.halfnorm(scale=s).logpdf(v), "cont", "float32", lambda x, s: np.all(x >= 0),
        norm=_quad_pieces(lambda s: [(0.0, s), (s, 8 * s), (8 * s, INF)]),
    ))

    # ---- inverse_gamma.  Docstring: "concentration: shape alpha; rate: Rate parameter (beta > 0), or scale: Scale
    # parameter (1/rate)".  Reading used for the positional form: X = 1/Y, Y ~ Gamma(alpha, rate=beta), i.e.
    # f(x) = beta^alpha / Gamma(alpha) x^(-alpha-1) exp(-beta/x)  (scipy invgamma(alpha, scale=beta)).
    # Keyword forms as documented: rate=beta -> the same density; scale=theta=1/rate -> invgamma(alpha, scale=1/theta).
    S.append(Spec(
        "inverse_gamma", "", "InverseGamma", ("concentration", "rate"), [(1.5, 1.0), (3.0, 2.0), (0.8, 0.5), (5.0, 6.0)], [0.05, 0.1, 0.3, 0.7, 1.0, 2.0, 5.0, 12.0],
        lambda v, a, b: st.invgamma(a, scale=b).logpdf(v), "cont", "float32", lambda x, a, b: np.all(x > 0),
        norm=_quad_pieces(lambda a, b: [(0.0, b / (a + 1)), (b / (a + 1), 20 * b / a), (20 * b / a, INF)]),
        mk=lambda tfd, jnp, a, b: tfd.InverseGamma(concentration=a, scale=b),
        alts=[Alt("rate", "documented-keyword", [((a,), {"rate": b}, [0.3, 1.0, 4.0], (lambda a, b: lambda v: st.invgamma(a, scale=b).logpdf(v))(a, b)) for a, b in ((2.0, 0.5), (3.0, 2.0))]),
              Alt("scale", "documented-keyword", [((a,), {"scale": th}, [0.3, 1.0, 4.0], (lambda a, th: lambda v: st.invgamma(a, scale=1.0 / th).logpdf(v))(a, th)) for a, th in ((2.0, 0.5), (3.0, 2.0))])],
    ))

    # ---- weibull
    S.append(Spec(
        "weibull", "", "Weibull", ("concentration", "scale"), [(0.8, 1.0), (1.0, 2.0), (1.5, 0.5), (3.0, 2.5)], [0.01, 0.1, 0.4, 1.0, 2.0, 3.0, 5.0, 7.5],
        lambda v, c, s: st.weibull_min(c, scale=s).logpdf(v), "cont", "float32", lambda x, c, s: np.all(x >= 0),
        norm=_quad_pieces(lambda c, s: [(0.0, s), (s, s * 40.0 ** (1 / c)), (s * 40.0 ** (1 / c), INF)]),
    ))

    # ---- cauchy
    S.append(Spec(
        "cauchy", "", "Cauchy", ("loc", "scale"), [(0.0, 1.0), (-1.2, 0.5), (0.3, 2.0), (4.0, 0.2)], [-30.0, -4.0, -1.2, -0.5, 0.0, 0.3, 1.0, 4.0, 4.1, 50.0],
        lambda v, m, s: st.cauchy(m, s).logpdf(v), "cont", "float32", lambda x, m, s: np.all(np.isfinite(x)),
        norm=_quad_pieces(lambda m, s: [(-INF, m - 5 * s), (m - 5 * s, m), (m, m + 5 * s), (m + 5 * s, INF)]),
    ))

    # ---- chi2
    S.append(Spec(
        "chi2", "", "Chi2", ("df",), [(1.0,), (2.0,), (3.5,), (8.0,)], [0.01, 0.1, 0.5, 1.0, 2.0, 4.0, 9.0, 20.0],
        lambda v, d: st.chi2(d).logpdf(v), "cont", "float32", lambda x, d: np.all(x > 0),
        norm=_quad_pieces(lambda d: [(0.0, d), (d, d + 12 * math.sqrt(2 * d) + 20), (d + 12 * math.sqrt(2 * d) + 20, INF)]),
    ))

    # ---- multinomial: positional = (total_count, logits); probs= documented alternative
    def mult_ref(v, n, l):
        return float(st.multinomial(int(n), np.exp(_log_softmax(l))).logpmf(np.asarray(v, np.float64)))

    mult = [(1.0, (0.0, 0.0, 0.0)), (3.0, (-1.0, 0.5, 2.0)), (4.0, (0.3, 0.3, -2.0)), (3.0, tuple(np.log([0.2, 0.3, 0.5])))]
    S.append(Spec(
        "multinomial", "K3", "Multinomial", ("total_count", "logits"), mult, lambda n, l: [tuple(map(float, c)) for c in _compositions(int(n), 3)], mult_ref,
        "disc", "float32", lambda x, n, l: np.all(x >= 0) and isint(x) and np.all(x.sum(-1) == n), norm=_sum_list("all count vectors with sum n"), event_ndims=1,
        alts=[Alt("probs", "documented-keyword", [((n,), {"probs": q}, [tuple(map(float, c)) for c in _compositions(int(n), 3)],
                                                    (lambda n, q: lambda v: float(st.multinomial(int(n), np.asarray(q)).logpmf(np.asarray(v, np.float64))))(n, q)) for n, q in ((2.0, (0.2, 0.3, 0.5)), (3.0, (0.6, 0.1, 0.3)))],
                  mk=lambda tfd, jnp, pos, kw: tfd.Multinomial(total_count=pos[0], probs=kw["probs"]))],
        doc_dtype="undocumented; TFP: dtype of the parameter",
    ))
    S[-1].param_event_ndims = (0, 1)

    # ---- negative_binomial.  Docstring: "total_count: Number of successes (> 0); logits: Log-odds of success, or
    # probs: Probability of success per trial".  With total_count counting SUCCESSES and p the success probability the
    # variable can only be the number of failures before the total_count-th success:
    #   P(X=k) = C(k+n-1, k) p^n (1-p)^k    (scipy nbinom(n, p)).
    # That reading is NOT forced by the text ("Number of successes" is silent about what X counts), and the
    # docstring describes a thin wrapper of tfd.NegativeBinomial whose `probs` is likewise "probability of success":
    # X = number of successes before total_count failures, P(X=k) = C(k+n-1, k) (1-p)^n p^k = scipy nbinom(n, 1-p).
    # The reference follows the wrapped object's convention (an ambiguous docstring is not a violation).
    S.append(Spec(
        "negative_binomial", "", "NegativeBinomial", ("total_count", "logits"), [(1.0, -0.5), (3.0, -1.0), (5.0, 0.7), (2.0, 1.5), (4.0, 0.0)],
        [0.0, 1.0, 2.0, 3.0, 5.0, 8.0, 13.0, 21.0], lambda v, n, l: st.nbinom(n, 1.0 - _sigmoid(l)).logpmf(v), "disc", "float32", lambda x, n, l: np.all(x >= 0) and isint(x),
        norm=_sum_range(0, lambda n, l: 1500, lambda p, hi: 1e-30, "pmf ratio (k+n)/(k+1) q <= 0.83 for k>=300 with q<=0.818, n<=5: tail < 1e-30"),
        alts=[Alt("probs", "documented-keyword", [((n,), {"probs": q}, [0.0, 1.0, 3.0, 7.0], (lambda n, q: lambda v: st.nbinom(n, 1.0 - q).logpmf(v))(n, q)) for n, q in ((2.0, 0.3), (3.0, 0.5), (4.0, 0.8))],
                  mk=lambda tfd, jnp, pos, kw: tfd.NegativeBinomial(total_count=pos[0], probs=kw["probs"]))],
        doc_dtype="undocumented; TFP: dtype of the parameter",
    ))

    # ---- zipf: power > 1; int32 samples (documented)
    S.append(Spec(
        "zipf", "", "Zipf", ("power",), [(1.5,), (2.0,), (3.0,), (4.5,)], [1, 2, 3, 4, 5, 7, 10, 20, 50], lambda v, a: st.zipf(a).logpmf(int(v)), "disc", "int32",
        lambda x, a: np.all(x >= 1) and isint(x),
        norm=_sum_range(1, lambda a: 2 ** 18, lambda p, hi: hi ** (1 - p[0]) / ((p[0] - 1) * sp.zeta(p[0])), "tail <= N^(1-a)/((a-1) zeta(a)) <= 2.4e-6 for a>=2, N=2^18"),
        norm_params=[(2.0,), (3.0,), (4.5,)], norm_note="power=1.5 left out of the truncated sum (tail bound 1.5e-3 at N=2^18)",
        alts=[Alt("dtype", "documented-keyword", [((a,), {"dtype": "int32"}, [1, 2, 5], (lambda a: lambda v: st.zipf(a).logpmf(int(v)))(a)) for a in (2.0, 3.0)])],
        doc_dtype="docstring: default int32",
    ))

    # ---- user-wrapped: tfp_distribution(lambda mu: tfd.Normal(mu, 2.0))
    def build_user_tfp():
        import tensorflow_probability.substrates.jax as tfp
        from genjax.core import tfp_distribution

        return tfp_distribution(lambda mu: tfp.distributions.Normal(mu, 2.0), name="UserNormal2")

    S.append(Spec(
        "user_tfp", "", "UserNormal2", ("mu",), [(0.0,), (-1.2,), (0.3,), (5.0,)], [-6.0, -3.0, -1.2, 0.0, 0.3, 1.0, 2.5, 5.0, 9.0],
        lambda v, m: st.norm(m, 2.0).logpdf(v), "cont", "float32", lambda x, m: np.all(np.isfinite(x)),
        norm=_quad_pieces(lambda m: [(-INF, m - 16.0), (m - 16.0, m), (m, m + 16.0), (m + 16.0, INF)]),
        mk=lambda tfd, jnp, m: tfd.Normal(loc=m, scale=2.0), build=build_user_tfp,
    ))

    # ---- user-wrapped: distribution(wrap_sampler(keyful), wrap_logpdf(logpdf)): a logistic(loc, scale)
    def build_user_custom():
        import jax
        import jax.numpy as jnp
        from genjax.core import distribution
        from genjax.pjax import wrap_logpdf, wrap_sampler

        def keyful(key, loc, scale, sample_shape=()):
            shape = tuple(sample_shape) + tuple(jnp.broadcast_shapes(jnp.shape(loc), jnp.shape(scale)))
            return loc + scale * jax.random.logistic(key, shape)

        def logpdf(v, loc, scale):
            z = (v - loc) / scale
            return -z - 2.0 * jnp.logaddexp(0.0, -z) - jnp.log(scale)

        return distribution(wrap_sampler(keyful, name="UserLogistic"), wrap_logpdf(logpdf), name="UserLogistic")

    class _RefLogistic:  # what "an independently constructed object" means for the hand-written sampler
        def __init__(self, loc, scale):
            self.loc, self.scale = loc, scale

        def sample(self, seed, sample_shape=()):
            import jax
            import jax.numpy as jnp

            shape = tuple(sample_shape) + tuple(np.broadcast_shapes(np.shape(self.loc), np.shape(self.scale)))
            return jnp.asarray(self.loc) + jnp.asarray(self.scale) * jax.random.logistic(seed, shape)

    S.append(Spec(
        "user_custom", "", "UserLogistic", ("loc", "scale"), [(0.0, 1.0), (-1.2, 0.5), (0.3, 2.0), (4.0, 0.25)], [-8.0, -3.0, -1.2, 0.0, 0.3, 1.0, 2.5, 4.0, 4.5, 12.0],
        lambda v, m, s: st.logistic(m, s).logpdf(v), "cont", "float32", lambda x, m, s: np.all(np.isfinite(x)),
        norm=_quad_pieces(lambda m, s: [(-INF, m - 20 * s), (m - 20 * s, m), (m, m + 20 * s), (m + 20 * s, INF)]),
        mk=lambda tfd, jnp, m, s: _RefLogistic(m, s), build=build_user_custom,
    ))
    for s in S:
        if s.param_event_ndims is None:
            s.param_event_ndims = (0,) * len(s.kw)
    return S


TFD_NAME = {
    "bernoulli": "Bernoulli", "beta": "Beta", "categorical": "Categorical", "geometric": "Geometric", "normal": "Normal", "uniform": "Uniform",
    "exponential": "Exponential", "poisson": "Poisson", "dirichlet": "Dirichlet", "binomial": "Binomial", "gamma": "Gamma", "log_normal": "LogNormal",
    "student_t": "StudentT", "laplace": "Laplace", "half_normal": "HalfNormal", "weibull": "Weibull", "cauchy": "Cauchy", "chi2": "Chi2",
    "multinomial": "Multinomial", "negative_binomial": "NegativeBinomial", "zipf": "Zipf",
}


# ------------------------------------------------------------------ per-spec machinery


def _np_param(x):
    return np.asarray(x, np.float32)


def _np_value(spec, v):
    return np.asarray(v, {"float32": np.float32, "int32": np.int32, "bool": np.bool_}[spec.vdtype])


def _support(spec, p):
    return list(spec.support(*p)) if callable(spec.support) else list(spec.support)


def _ref(spec, v, p):
    """Reference at the float32-rounded inputs (so both sides see the same numbers)."""
    v32 = _np_value(spec, v)
    v64 = v32.astype(np.float64) if spec.vdtype == "float32" else v32
    p64 = tuple(_np_param(x).astype(np.float64) for x in p)
    vv = v64.tolist() if v64.ndim else v64.item()
    pp = tuple(x.tolist() if x.ndim else x.item() for x in p64)
    return float(spec.ref(vv, *pp))


def _call(res, fn, *a, **k):
    """One real genjax execution; exceptions are returned, never raised."""
    import genjax

    res.evaluations += 1
    res.transitions += 1
    try:
        out = fn(*a, **k)
        return np.asarray(out), None
    except Exception as e:  # noqa: BLE001
        genjax.core.handler_stack.clear()
        return None, f"{type(e).__name__}: {str(e)[:300]}"


def _cmp(res, spec, mode, got, err, want, detail):
    """Compare an array of log densities with the reference array."""
    name = spec.dist
    res.validated += int(np.size(want))
    if err is not None:
        res.violate(PROP, f"logpdf-raises:{name}", mode=mode, error=err, variant=spec.variant, **detail)
        return False
    want = np.asarray(want, np.float64)
    if got.shape != want.shape:
        res.violate(PROP, f"logpdf-shape:{name}", mode=mode, got_shape=list(got.shape), want_shape=list(want.shape), variant=spec.variant, **detail)
        return False
    g = got.astype(np.float64)
    bad = ~((np.abs(g - want) <= 2e-4 + 2e-4 * np.abs(want)) | (np.isinf(g) & np.isinf(want) & (np.sign(g) == np.sign(want))))
    if np.any(bad):
        i = int(np.argmax(bad.reshape(-1)))
        res.violate(
            PROP, f"logpdf:{name}", mode=mode, variant=spec.variant, n_bad=int(bad.sum()), n=int(bad.size), first_bad_index=i,
            genjax=float(g.reshape(-1)[i]), reference=float(want.reshape(-1)[i]), **{k: (v[i] if isinstance(v, list) and len(v) == bad.size else v) for k, v in detail.items()},
        )
        return False
    return True


def check_logpdf(res, spec, dist, jl, tier):
    import jax
    import jax.numpy as jnp
    from genjax import modular_vmap

    k = len(spec.kw)
    grid = []  # (pi, vi, p, v)
    for pi, p in enumerate(spec.params):
        for vi, v in enumerate(_support(spec, p)):
            grid.append((pi, vi, p, v))
    refs = np.asarray([_ref(spec, v, p) for (_pi, _vi, p, v) in grid])
    if not np.all(np.isfinite(refs)):
        raise RuntimeError(f"reference not finite on the grid of {spec.dist}/{spec.variant}")
    for (pi, vi, p, v) in grid:
        res.states += 1
        res.case("logpdf", spec.dist, spec.variant, pi, vi)
    detail_all = {"kw": list(spec.kw), "params": [list(map(_tolist, g[2])) for g in grid], "value": [_tolist(g[3]) for g in grid]}

    # (a) scalar, jitted: every grid point, one call each
    got = []
    err = None
    for (_pi, _vi, p, v) in grid:
        g, e = _call(res, jl, jnp.asarray(_np_value(spec, v)), *[jnp.asarray(_np_param(x)) for x in p])
        if e is not None:
            err = e
            break
        got.append(g)
    _cmp(res, spec, "scalar-jit", np.asarray(got) if err is None else None, err, refs, detail_all)

    # (b) scalar, eager, python numbers: first param x all values, every param x first value (all of it when thorough)
    sub = [i for i, g in enumerate(grid) if tier == "thorough" or g[0] == 0 or g[1] == 0]
    got = []
    err = None
    for i in sub:
        _pi, _vi, p, v = grid[i]
        pv = [x if np.ndim(x) == 0 else jnp.asarray(_np_param(x)) for x in p]
        vv = v if np.ndim(v) == 0 else jnp.asarray(_np_value(spec, v))
        g, e = _call(res, dist.logpdf, vv, *pv)
        if e is not None:
            err = e
            break
        got.append(g)
    _cmp(res, spec, "scalar-eager", np.asarray(got) if err is None else None, err, refs[sub], {kk: [vv[i] for i in sub] if isinstance(vv, list) and len(vv) == len(grid) else vv for kk, vv in detail_all.items()})

    # (c) values batched, parameters scalar: one call per parameter point
    for pi, p in enumerate(spec.params):
        idx = [i for i, g in enumerate(grid) if g[0] == pi]
        V = jnp.asarray(np.stack([_np_value(spec, grid[i][3]) for i in idx]))
        eager = tier == "thorough" or pi == 0
        g, e = _call(res, dist.logpdf if eager else jl, V, *[jnp.asarray(_np_param(x)) for x in p])
        _cmp(res, spec, "values-batched" if eager else "values-batched-jit", g, e, refs[idx], {"kw": list(spec.kw), "params": list(map(_tolist, p)), "value": [_tolist(grid[i][3]) for i in idx]})

    # (d) the flattened grid in one call: values and every parameter batched along axis 0
    V = jnp.asarray(np.stack([_np_value(spec, g[3]) for g in grid]))
    P = [jnp.asarray(np.stack([_np_param(g[2][j]) for g in grid])) for j in range(k)]
    g, e = _call(res, dist.logpdf, V, *P)
    _cmp(res, spec, "params-batched", g, e, refs, detail_all)

    # (e) inside modular_vmap: all axes mapped (flattened grid) ...
    f = lambda v, *p: dist.logpdf(v, *p)
    g, e = _call(res, modular_vmap(f, in_axes=(0,) * (k + 1)), V, *P)
    _cmp(res, spec, "modular_vmap-all", g, e, refs, detail_all)
    # ... the same jitted ...
    g, e = _call(res, jax.jit(modular_vmap(f, in_axes=(0,) * (k + 1))), V, *P)
    _cmp(res, spec, "jit-modular_vmap-all", g, e, refs, detail_all)
    # ... and only the value mapped, parameters closed over as unmapped arguments
    mv = modular_vmap(f, in_axes=(0,) + (None,) * k)
    jmv = jax.jit(mv)
    for pi, p in enumerate(spec.params):
        idx = [i for i, gg in enumerate(grid) if gg[0] == pi]
        Vp = jnp.asarray(np.stack([_np_value(spec, grid[i][3]) for i in idx]))
        eager = tier == "thorough" or pi == 0
        g, e = _call(res, mv if eager else jmv, Vp, *[jnp.asarray(_np_param(x)) for x in p])
        _cmp(res, spec, "modular_vmap-values" if eager else "jit-modular_vmap-values", g, e, refs[idx], {"kw": list(spec.kw), "params": list(map(_tolist, p)), "value": [_tolist(grid[i][3]) for i in idx]})
    res.add_sample({"part": "logpdf", "dist": spec.dist, "variant": spec.variant, "kw": list(spec.kw), "params": list(map(_tolist, grid[len(grid) // 2][2])),
                    "value": _tolist(grid[len(grid) // 2][3]), "reference_logpdf": float(refs[len(grid) // 2]), "grid_points": len(grid)})


def _tolist(x):
    return np.asarray(x).tolist()


def check_alts(res, spec, dist, keys):
    """Documented alternative keywords / defaults: logpdf against the documented meaning (+ one draw each)."""
    import jax
    import jax.numpy as jnp
    import tensorflow_probability.substrates.jax as tfp
    from genjax import seed as gseed
    from mc import env

    for alt in spec.alts:
        sig = f"{alt.sig}:{spec.dist}.{alt.label}"
        for pos, kw, support, ref in alt.cases:
            res.states += len(support)
            res.case("alt", spec.dist, alt.label, repr(pos), repr(kw))
            det = {"call": f"{spec.dist}.logpdf(v, *{list(pos)}, **{kw})", "values": _tolist(support)}
            kwj = {a: (b if isinstance(b, str) else jnp.asarray(_np_param(b))) for a, b in kw.items()}
            if "dtype" in kwj:
                kwj["dtype"] = jnp.int32
            posj = [jnp.asarray(_np_param(x)) for x in pos]
            want = np.asarray([float(ref(_np_value(spec, v).astype(np.float64).tolist() if spec.vdtype == "float32" else _np_value(spec, v).tolist())) for v in support])
            got, err = _call(res, dist.logpdf, jnp.asarray(np.stack([_np_value(spec, v) for v in support])), *posj, **kwj)
            res.validated += len(support)
            if err is not None:
                res.violate(PROP, sig, what="documented form is not accepted", error=err, **det)
                continue
            g = got.astype(np.float64)
            if g.shape != want.shape or not np.all(np.abs(g - want) <= 2e-4 + 2e-4 * np.abs(want)):
                res.violate(PROP, sig, what="documented form accepted with another meaning", genjax=g, reference=want, **det)
                continue
            if alt.mk is None:
                continue
            # sampler through the same documented form (first case of each form, one root key, jitted both sides)
            if (pos, kw) != (alt.cases[0][0], alt.cases[0][1]):
                continue
            fn = jax.jit(gseed(lambda *a, **k: dist.sample(*a, **k)))
            out, evs, err = _run_sampler(res, fn, keys[0], posj, kwj)
            if err is not None or len(evs) != 1 or evs[0].name != spec.site:
                res.violate(PROP, sig, what="sampler with the documented form", error=err, events=[e.brief() for e in evs][:3], **det)
                continue
            ev = evs[0]
            k2 = jax.random.wrap_key_data(jnp.asarray(np.frombuffer(ev.key, np.uint32)))
            ref_fn = lambda key, posj_, kwj_: alt.mk(tfp.distributions, jnp, posj_, kwj_).sample(seed=key, sample_shape=())
            ref_draw = np.asarray(jax.jit(ref_fn)(k2, posj, kwj))
            res.validated += 1
            if not H.bits_equal(ref_draw, np.asarray(out)):
                out2, evs2, err2 = _run_sampler(res, gseed(lambda *a, **k: dist.sample(*a, **k)), keys[0], posj, kwj)
                if err2 is None and len(evs2) == 1:
                    out = out2
                    k2 = jax.random.wrap_key_data(jnp.asarray(np.frombuffer(evs2[0].key, np.uint32)))
                    ref_draw = np.asarray(ref_fn(k2, posj, kwj))
            if not H.bits_equal(ref_draw, np.asarray(out)):
                res.violate(PROP, f"sampler-vs-density:{spec.dist}", mode=f"keyword {alt.label}", genjax=np.asarray(out), independent=ref_draw, site_key=ev.key.hex(), **det)


def check_norm(res, spec, dist, jl):
    import jax.numpy as jnp

    if spec.norm is None:
        res.notes.setdefault("normalisation_skipped", []).append(f"{spec.dist}/{spec.variant}: {spec.norm_note}")
        return
    if spec.norm_note:
        res.notes.setdefault("normalisation_notes", []).append(f"{spec.dist}/{spec.variant}: {spec.norm_note}")

    def logpdf_values(vs, p):
        vs = np.asarray(vs)
        V = jnp.asarray(vs.astype({"float32": np.float32, "int32": np.int32, "bool": np.bool_}[spec.vdtype]))
        res.evaluations += 1
        res.transitions += 1
        return np.asarray(dist.logpdf(V, *[jnp.asarray(_np_param(x)) for x in p]))

    def pdf1(p):
        pj = [jnp.asarray(_np_param(x)) for x in p]

        def f(x):
            x32 = np.float32(x)
            if not np.isfinite(x32) or abs(float(x32)) > 1e30:
                return 0.0
            res.evaluations += 1
            return float(np.exp(np.float64(jl(jnp.asarray(x32), *pj))))

        return f

    ctx = {"logpdf_values": logpdf_values, "pdf1": pdf1, "support": lambda p: _support(spec, p)}
    worst = ["", "", -1.0]
    for p in spec.norm_params if spec.norm_params is not None else spec.params:
        res.states += 1
        res.case("norm", spec.dist, spec.variant, repr(p))
        try:
            total, tail, how = spec.norm(ctx, p)
            err = None
        except Exception as e:  # noqa: BLE001
            import genjax

            genjax.core.handler_stack.clear()
            total, tail, how, err = float("nan"), 0.0, "", f"{type(e).__name__}: {str(e)[:300]}"
        res.validated += 1
        res.transitions += 1
        ok = err is None and np.isfinite(total) and tail < 1e-5 and (1.0 - tail - 1e-4 <= total <= 1.0 + 1e-4)
        if not ok:
            res.violate(PROP, f"normalisation:{spec.dist}", variant=spec.variant, kw=list(spec.kw), params=list(map(_tolist, p)), total=total, tail_bound=tail, how=how, error=err)
        if np.isfinite(total) and abs(total - 1.0) >= worst[2]:
            worst = [f"{spec.dist}/{spec.variant}", repr(p), float(abs(total - 1.0))]
    res.notes.setdefault("_normdev", []).append(worst)
    if len(res.samples) < 5:
        res.add_sample({"part": "normalisation", "dist": spec.dist, "variant": spec.variant, "params": list(map(_tolist, p)), "total": total, "tail_bound": tail, "how": how})


def _run_sampler(res, fn, key, pos, kw=None):
    import genjax
    from mc import env

    res.evaluations += 1
    res.transitions += 1
    try:
        out, evs = env.run_recorded(fn, key, *pos, **(kw or {}))
        return out, evs, None
    except Exception as e:  # noqa: BLE001
        genjax.core.handler_stack.clear()
        return None, [], f"{type(e).__name__}: {str(e)[:300]}"


def check_sampler(res, spec, dist, jl, keys, tier):
    """Sampler == density object, over keys x parameter grid x {plain, sample_shape, vmap-batched, vmap-axis_size}.

    Both sides are jit-compiled once per call shape (eager TFP rejection samplers re-trace their
    while-loops on every call: 2-4 s per draw).  A bit mismatch between the two compiled programs is
    re-examined eagerly on both sides before it is reported (XLA may fuse the two programs
    differently); additionally one (quick) / several (thorough) cases per distribution run eagerly.
    """
    import jax
    import jax.numpy as jnp
    import tensorflow_probability.substrates.jax as tfp
    from genjax import modular_vmap
    from genjax import seed as gseed

    tfd = tfp.distributions
    name = spec.dist
    k = len(spec.kw)
    mk = spec.mk or (lambda tfd_, jnp_, *p: getattr(tfd_, TFD_NAME[name])(**dict(zip(spec.kw, p))))
    np_dtype = {"float32": np.float32, "int32": np.int32, "bool": np.bool_}[spec.vdtype]

    e_fns = {
        "plain": gseed(lambda *p: dist.sample(*p)),
        "sample_shape=(3,)": gseed(lambda *p: dist.sample(*p, sample_shape=(3,))),
        "modular_vmap(batched params)": gseed(modular_vmap(lambda *p: dist.sample(*p), in_axes=(0,) * k)),
        "modular_vmap(axis_size=3)": gseed(modular_vmap(lambda *p: dist.sample(*p), in_axes=(None,) * k, axis_size=3)),
    }
    j_fns = {m: _jit(f) for m, f in e_fns.items()}
    e_ref = {ss: (lambda key, *p, _ss=ss: mk(tfd, jnp, *p).sample(seed=key, sample_shape=_ss)) for ss in ((), (3,))}
    j_ref = {ss: _jit(f) for ss, f in e_ref.items()}  # retraced for batched parameters by shape
    nP = len(spec.params)
    Pb = [jnp.asarray(np.stack([_np_param(p[j]) for p in spec.params])) for j in range(k)]
    ev_shape = lambda p: tuple(np.shape(_np_value(spec, _support(spec, p)[0])))

    runs = []  # (mode, args, sample_shape expected at the site, lanes [(index tuple, params)], expected shape, param index)
    for pi, p in enumerate(spec.params):
        pj = [jnp.asarray(_np_param(x)) for x in p]
        runs.append(("plain", pj, (), [((), p)], ev_shape(p), pi))
        runs.append(("sample_shape=(3,)", pj, (3,), [((i,), p) for i in range(3)], (3,) + ev_shape(p), pi))
    runs.append(("modular_vmap(batched params)", Pb, (), [((i,), spec.params[i]) for i in range(nP)], (nP,) + ev_shape(spec.params[0]), -1))
    i0 = min(1, nP - 1)
    p0 = spec.params[i0]
    if tier == "thorough" or name not in HEAVY:
        runs.append(("plain", Pb, (), [((i,), spec.params[i]) for i in range(nP)], (nP,) + ev_shape(spec.params[0]), -2))
        runs.append(("modular_vmap(axis_size=3)", [jnp.asarray(_np_param(x)) for x in p0], (3,), [((i,), p0) for i in range(3)], (3,) + ev_shape(p0), i0))
    else:
        res.notes.setdefault("modes_skipped_in_quick", []).append(f"{name}: modular_vmap(axis_size=3), plain call with batched parameters")

    def eager_wanted(ki, mode, pi):
        if name in HEAVY:
            return tier == "thorough" and ki == 0 and pi == i0 and mode == "plain"
        if tier == "quick":
            return ki == 0 and pi == i0 and mode in ("plain", "sample_shape=(3,)")
        return ki < 2 and mode in ("plain", "sample_shape=(3,)")

    seen_keys = {}
    draws = {}
    for ki, key in enumerate(keys):
        for mode, args, ss, lanes, shape, pi in runs:
            for how in ("jit", "eager") if eager_wanted(ki, mode, pi) else ("jit",):
                res.states += 1
                res.case("sampler", name, spec.variant, mode, pi, ki, how)
                det = {"mode": mode, "exec": how, "variant": spec.variant, "kw": list(spec.kw), "params": [_tolist(a) for a in args], "root_key": H.jsonable(np.asarray(jax.random.key_data(key)))}
                out, evs, err = _run_sampler(res, (j_fns if how == "jit" else e_fns)[mode], key, args)
                if err is not None:
                    res.violate(PROP, f"sampler-raises:{name}", error=err, **det)
                    continue
                out = np.asarray(out)
                # --- the site: one event, documented name, the parameters passed, the sample_shape asked for
                if len(evs) != 1 or evs[0].name != spec.site:
                    res.violate(PROP, f"sampler-site:{name}", events=[e.brief() for e in evs][:3], expected_name=spec.site, **det)
                    continue
                ev = evs[0]
                seen_keys.setdefault((mode, pi, how), set()).add(ev.key)
                draws.setdefault((mode, pi, how), set()).add(out.tobytes())
                same_args = len(ev.args) == k and not ev.kwargs and all(np.array_equal(np.asarray(a, np.float64), np.asarray(b, np.float64)) for a, b in zip(ev.args, args))
                if not same_args or tuple(ev.sample_shape) != tuple(ss):
                    res.violate(PROP, f"sampler-site:{name}", what="site arguments / sample_shape differ from the call", site=ev.brief(), expected_sample_shape=list(ss), **det)
                    continue
                if not H.bits_equal(out, np.asarray(ev.value)):
                    res.violate(PROP, f"sampler-vs-density:{name}", what="returned value is not the site's draw", returned=out, site_draw=ev.value, **det)
                    continue
                # --- documented shape and dtype
                if tuple(out.shape) != tuple(shape) or out.dtype != np_dtype:
                    res.violate(PROP, f"sampler-shape:{name}", got_shape=list(out.shape), got_dtype=str(out.dtype), want_shape=list(shape), want_dtype=spec.vdtype, **det)
                    continue
                # --- support; the density object is finite at the draw and is the documented density there
                for idx, p in lanes:
                    x = out[idx] if idx else out
                    p32 = tuple(_np_param(q) for q in p)
                    if not bool(spec.insupport(x, *[q.astype(np.float64) for q in p32])):
                        res.violate(PROP, f"sampler-support:{name}", what="draw outside the documented support", lane=list(idx), draw=x, **det)
                        break
                    if how == "eager":
                        continue
                    lp = float(np.asarray(jl(jnp.asarray(x), *[jnp.asarray(q) for q in p32])))
                    res.evaluations += 1
                    if not np.isfinite(lp):
                        res.violate(PROP, f"sampler-vs-density:{name}", what="the density is not finite at the sampler's own draw", lane=list(idx), draw=x, logpdf=lp, **det)
                        break
                    try:
                        want = _ref(spec, x, p)
                    except Exception:  # noqa: BLE001
                        want = float("nan")
                    if np.isfinite(want) and abs(lp - want) > 1e-3 + 1e-3 * abs(want):
                        res.violate(PROP, f"logpdf:{name}", where="at the sampler's own draw", lane=list(idx), value=x, genjax=lp, reference=want, **det)
                        break
                # --- bit-identical to an independently constructed object sampled with the site's key
                k2 = jax.random.wrap_key_data(jnp.asarray(np.frombuffer(ev.key, np.uint32)))
                ref_draw = np.asarray((j_ref if how == "jit" else e_ref)[tuple(ss)](k2, *args))
                res.validated += 1
                if not H.bits_equal(ref_draw, out) and how == "jit":
                    # arbiter: both sides eagerly (op-by-op, no fusion)
                    res.notes["jit_mismatch_rechecked_eagerly"] = res.notes.get("jit_mismatch_rechecked_eagerly", 0) + 1
                    res.notes.setdefault("jit_mismatch_cases", []).append(f"{name}: {mode}")
                    out2, evs2, err2 = _run_sampler(res, e_fns[mode], key, args)
                    if err2 is None and len(evs2) == 1:
                        out = np.asarray(out2)
                        k2 = jax.random.wrap_key_data(jnp.asarray(np.frombuffer(evs2[0].key, np.uint32)))
                        ref_draw = np.asarray(e_ref[tuple(ss)](k2, *args))
                if not H.bits_equal(ref_draw, out):
                    res.violate(PROP, f"sampler-vs-density:{name}", what="draw differs from tfd.<documented object>(<documented keywords>).sample(seed=site key)", genjax=out, independent=ref_draw, site_key=ev.key.hex(), **det)
                    continue
                if ki == 0 and mode == "sample_shape=(3,)" and pi == i0:
                    res.add_sample({"part": "sampler", "dist": name, "mode": mode, "kw": list(spec.kw), "params": det["params"], "site_key": ev.key.hex(), "draw": out, "independent_draw": ref_draw})
    # --- vacuity guards: the root key reaches the site, the draw depends on it
    for (mode, pi, how), ks in seen_keys.items():
        if how != "jit":
            continue
        if len(ks) != len(keys):
            res.violate(PROP, f"sampler-key:{name}", what="distinct root keys gave the same site key", mode=mode, distinct_site_keys=len(ks), root_keys=len(keys))
        if spec.kind == "cont" and len(draws[(mode, pi, how)]) < max(2, len(keys) // 2):
            res.violate(PROP, f"sampler-key:{name}", what="draws do not vary with the key", mode=mode, distinct_draws=len(draws[(mode, pi, how)]), root_keys=len(keys))
    res.notes["distinct_draws"] = res.notes.get("distinct_draws", 0) + sum(len(v) for v in draws.values())


# ------------------------------------------------------------------ work items


def work(item, tier, seed):
    """item = (distribution, part); part "density" = logpdf grid + normalisation + documented keywords, "sampler" = part 3."""
    import jax
    from genjax import distributions as D
    from mc import env

    env.install()
    res = H.Result()
    name, part = item
    nkeys = 8 if tier == "quick" else 32
    keys = [jax.random.key(seed * 100003 + 17 * i + 1) for i in range(nkeys)]
    specs = [s for s in _specs() if s.dist == name]
    if not specs:
        raise RuntimeError(f"no spec for work item {item}")
    for spec in specs:
        dist = spec.build() if spec.build else getattr(D, spec.dist)
        jl = jax.jit(lambda v, *p, _d=dist: _d.logpdf(v, *p))
        t = time.process_time()
        t1 = t2 = t3 = t
        if part == "density":
            check_logpdf(res, spec, dist, jl, tier)
            t1 = time.process_time()
            check_norm(res, spec, dist, jl)
            t2 = t3 = time.process_time()
            if spec is specs[0]:
                check_alts(res, spec, dist, keys)
        else:
            t1 = t2 = t
            if spec is specs[0] or tier == "thorough" or spec.dist not in HEAVY:
                check_sampler(res, spec, dist, jl, keys, tier)
            else:
                res.notes.setdefault("sampler_skipped_in_quick", []).append(f"{spec.dist}/{spec.variant} (same sampler as the first variant)")
            t3 = time.process_time()
        res.notes.setdefault("_phase_s", []).append([f"{spec.dist}/{spec.variant}", round(t1 - t, 1), round(t2 - t1, 1), round(t3 - t2, 1), round(time.process_time() - t3, 1)])
    return res


def _items():
    """One (distribution, part) pair per distribution and part; the expensive ones first."""
    light = [n for n in BUILTIN if n not in HEAVY] + USER
    return [(n, "sampler") for n in HEAVY] + [(n, "density") for n in HEAVY] + [(n, p) for n in light for p in ("sampler", "density")]


def _exported():
    import genjax
    from genjax import distributions as D

    return sorted(k for k, v in vars(D).items() if isinstance(v, genjax.core.Distribution))


def main(tier, seed):
    t0 = time.time()
    items = _items()
    only = os.environ.get("VERIF_ONLY")
    if only:
        items = [it for it in items if only in str(it)]
    res, errors = H.fan_out("checks.c13", "work", items, tier, seed)
    exported = _exported()
    if not only and sorted(BUILTIN) != exported:
        res.violate(PROP, "export-set", what="genjax.distributions exports differ from the 24 this check covers", exported=exported, covered=sorted(BUILTIN))
    specs = _specs()
    nkeys = 8 if tier == "quick" else 32
    rule = (
        f"every export of genjax.distributions ({len(BUILTIN)}) + 2 user-wrapped distributions; per distribution a Cartesian grid of 3-5 parameter points x 7-15 "
        "support points (whole support when finite), each evaluated scalar-eager / scalar-jit / values-batched / grid-batched / modular_vmap (all axes, value axis, jitted) "
        "against scipy.stats float64 under the documented parameterisation (|d| <= 2e-4 + 2e-4|ref|); every documented alternative keyword/default; normalisation by "
        "finite sum / truncated sum with analytic tail bound < 1e-5 / scipy.integrate.quad / tensor quadrature (== 1 +- 1e-4); sampler: "
        f"{nkeys} root keys x parameter grid x {{plain, sample_shape=(3,), modular_vmap batched, modular_vmap axis_size=3, plain with batched parameters}} (quick tier: the last two only for "
        "the 15 distributions without a rejection-loop sampler; both sides jit-compiled, a bit mismatch is re-run eagerly on both sides before it counts; plus eager cases): "
        "site name/args/sample_shape, shape, dtype, support, "
        "logpdf at the draw, bit-identity with an independently built tfd object sampled with the site's key. states = grid points + normalisation integrals + sampler runs; "
        "transitions = real genjax calls; distinct = distinct (distribution, variant, parameter, value | mode, key) cases"
    )
    assumptions = [
        "TFP's samplers realise TFP's densities over the 2^64 key space (trusted base, DESIGN section 4): decided here is that the draw comes from the documented distribution object with the passed parameters and the site's key",
        "geometric: the docstring headline describes trials-until-success on {1,2,..} and mentions failures-before-success on {0,1,..} as an alternative; the property text fixes the latter, which is what is checked",
        "inverse_gamma positional second parameter (documented as 'rate beta') is read as the rate of the reciprocal gamma variable: f(x) = beta^a/Gamma(a) x^(-a-1) exp(-beta/x)",
        "dtype of draws is documented only for flip (bool) and zipf (int32); for the others the check requires TFP's convention (bernoulli/categorical int32, counts float32, continuous float32)",
        "values outside the support are not evaluated (the property quantifies over the support); uniform includes both end points as documented",
    ]
    extra = {
        "work_items": len(items),
        "distributions": len({it[0] for it in items}),
        "spec_variants": len(specs),
        "grid_points_total": sum(len(_support(s, p)) for s in specs for p in s.params),
        "root_keys": nkeys,
    }
    if "_normdev" in res.notes:
        extra["normalisation_worst_abs_dev"] = sorted(res.notes.pop("_normdev"), key=lambda r: -r[2])[:3]
    if "_phase_s" in res.notes:
        extra["slowest_phases_cpu_s[logpdf,norm,sampler,alts]"] = sorted(res.notes["_phase_s"], key=lambda r: -sum(r[1:]))[:4]
        extra["cpu_s_total[logpdf,norm,sampler,alts]"] = [round(sum(r[i] for r in res.notes["_phase_s"]), 1) for i in (1, 2, 3, 4)]
        res.notes.pop("_phase_s")
    return H.finish(PROP, tier, seed, "model_checking", res, errors, t0, rule, assumptions, extra)


def replay(path):
    import json

    j = json.load(open(path))
    print("replaying", j["sig"])
    print(json.dumps(j["detail"], indent=1)[:3000])
    name = j["sig"].split(":", 1)[1].split(".")[0] if ":" in j["sig"] else ""
    if name in BUILTIN + USER:
        os.environ["VERIF_ONLY"] = name
    return main("quick", int(os.environ.get("VERIF_SEED", "0") or 0))
