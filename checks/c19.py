"""C19  state/save is transparent and collects exactly what was saved.

Bounded-exhaustive enumeration of a small program grammar (the only randomness is the one
optional sampling site; its draws are read back from the collected dict and, in the thorough
tier, also recorded at the sampler seam):

  atom    ::= save(a=e)                       named save (its return value is used)
            | save(a=e1, b=e2)                several names in one save
            | save(k=<constant>)              a value that does not depend on the input
            | namespace(lambda: save(e1, e2), "leaf")()      leaf mode inside its own namespace
            | save(e1, e2)                    bare leaf mode: the value OF the enclosing namespace
            | z = normal.sample(v, 1.); save(z=z)            sampling site
  program ::= atom
            | fn(program)                     nested Python function
            | namespace(program, n|m)         name alternates with the nesting level
            | scan(program)                   jax.lax.scan, length 3, body = program
            | vmap(program)                   jax.vmap, 2 lanes
            | modular_vmap(program)           genjax.modular_vmap, 2 lanes
            | program ; save(a=...)           later write to the same name
            | save(a=...) ; ns n,m: save(b=...) ; program    earlier writes (name and namespaces)

ALL wrapper chains up to nesting depth 3 (thorough) / depth 2 plus a fixed subset of depth 3
(quick, see _quick_depth3) over the atoms (the bare leaf only under a namespace and without
sibling writes).  Every program is (1) compiled to a real Python/JAX function using
genjax.state.save / namespace and (2) evaluated by an independent NumPy float64 reference that
loops explicitly (scan => stack along a leading iteration axis, vmap => leading batch axis,
i.e. what vmap(state(f)) returns; later write wins; namespaces => nested dicts that merge).

Configurations: eager state(f)(*a), jax.jit(state(f))(*a); with the sampling site:
eager state(f) (where an unseeded site is executable at all), genjax.seed(state(f))(key, *a)
and jax.jit(genjax.seed(state(f))).  Oracle per execution: result == f(*a) without `state`
and == the reference; collected dict == reference dict (same keys at every level, same
container kinds, same shapes, close values).  For the sampling site the reference takes the
draws from the collected 'z' (position and shape are checked first), so result == reference
proves that the saved draws are the ones that flowed on, iteration by iteration and lane by
lane; thorough: the draws recorded at the sampler seam must be the same multiset.
A program whose un-wrapped f raises in a configuration (unseeded site in a scan body,
any site under jax.vmap) says nothing about state() and is skipped there.

Signatures name the MINIMAL failing wrapper chain (every sub-chain is enumerated too), e.g.
collected:namespace-around-scan, raises:namespace-around-scan-around-bare-leaf-save:eager;
collected-axis-order:* = right values, axes permuted.
`cond` is outside the claim and is never generated.
"""

from __future__ import annotations

import itertools
import json
import os
import time

import numpy as np

from mc import harness as H

PROP = "C19"

ATOMS = ("save", "multi", "const", "leaf", "bareleaf", "sample")
AROUND = ("fn", "namespace", "scan", "vmap", "modular_vmap")
WRAPS = ("fn", "namespace", "scan", "vmap", "modular_vmap", "later", "earlier")
X0 = 1.25
XS = (0.5, -1.0, 1.5)  # scan length 3
LANES = (0.0, 1.5)  # vmap width 2 (different from the scan length on purpose)
LANE_W = (0.75, 0.25)  # lane weights of the reduction after a vmap (a lane swap changes the result)
SIZE = {"scan": len(XS), "vmap": len(LANES), "modular_vmap": len(LANES)}

TOKEN = {
    "fn": "function-around-",
    "namespace": "namespace-around-",
    "scan": "scan-around-",
    "vmap": "vmap-around-",
    "modular_vmap": "modular_vmap-around-",
    "later": "write-after-",
    "earlier": "write-before-",
}
ATOM_NAME = {"save": "save", "multi": "multi-save", "const": "const-save", "leaf": "leaf-save", "bareleaf": "bare-leaf-save", "sample": "sampled-save"}


class HarnessError(Exception):
    pass


# ---------------------------------------------------------------- programs


def to_ast(chain):
    """('namespace','scan','save') -> ('namespace', ('scan', ('save',)))"""
    node = (chain[-1],)
    for w in reversed(chain[:-1]):
        node = (w, node)
    return node


def to_chain(ast):
    out = []
    while len(ast) == 2:
        out.append(ast[0])
        ast = ast[1]
    out.append(ast[0])
    return tuple(out)


def ns_name(level):
    return "n" if level % 2 == 0 else "m"


def _quick_depth3(chain):
    """Fixed depth-3 subset of the quick tier: every chain with a scan in it over the plain
    named save, the scan/namespace/vmap interplay over the leaf-mode and sampled saves."""
    ws, atom = chain[:-1], chain[-1]
    if "scan" not in ws:
        return False
    if atom == "save":
        seq = [w for w in ws if w in ("later", "earlier")]
        if not seq:
            return True
        # one sibling write + scan + one of namespace / scan / vmap
        return len(seq) == 1 and (ws.count("scan") == 2 or "namespace" in ws or "vmap" in ws)
    if atom in ("leaf", "bareleaf"):
        return set(ws) <= {"scan", "namespace", "vmap"}
    if atom == "sample":
        return set(ws) <= {"scan", "namespace", "modular_vmap"}
    return False


def _valid(chain):
    """A bare leaf-mode save needs an enclosing namespace (state() rejects it otherwise, by
    design); it is not combined with the sibling writes (a leaf replaces its whole namespace)."""
    if chain[-1] == "bareleaf":
        return "namespace" in chain[:-1] and set(chain[:-1]) <= set(AROUND)
    return True


def programs(tier):
    out = []
    for d in range(0, 4):
        for ws in itertools.product(WRAPS, repeat=d):
            for atom in ATOMS:
                chain = ws + (atom,)
                if _valid(chain) and (d < 3 or tier == "thorough" or _quick_depth3(chain)):
                    out.append(chain)
    # a fixed set of deeper chains (both tiers): sibling writes and scans under TWO namespace levels
    # (a merge that is right one level below the root can still be wrong two levels down)
    for chain in DEEP_CHAINS:
        if chain not in out:
            out.append(chain)
    return out


DEEP_CHAINS = (
    ("namespace", "namespace", "earlier", "scan", "save"),
    ("namespace", "namespace", "later", "scan", "save"),
    ("namespace", "namespace", "earlier", "scan", "multi"),
    ("namespace", "namespace", "scan", "earlier", "save"),
    ("namespace", "namespace", "earlier", "scan", "namespace", "save"),
    ("namespace", "namespace", "namespace", "earlier", "scan", "save"),
    ("namespace", "earlier", "namespace", "scan", "save"),
    ("namespace", "namespace", "earlier", "scan", "scan", "save"),
    ("fn", "namespace", "namespace", "earlier", "scan", "leaf"),
)


def construct(chain):
    s = "".join(TOKEN[w] for w in chain[:-1]) + ATOM_NAME[chain[-1]]
    if len(chain) > 1 and s.endswith("-around-save"):
        s = s[: -len("-around-save")]
    return s


def show(ast, level=0, v="x"):
    """Python-like rendering of the compiled function (for violation details)."""
    k = ast[0]
    if not v.isidentifier():
        v = f"({v})"
    if k == "save":
        return f"save(a=2*{v})"
    if k == "multi":
        return f"save(a={v}+1, b=3*{v})"
    if k == "const":
        return "save(k=7.0)"
    if k == "leaf":
        return f"namespace(lambda: save({v}, 2*{v}), 'leaf')()"
    if k == "bareleaf":
        return f"save({v}, 2*{v})"
    if k == "sample":
        return f"z=normal.sample({v},1.); save(z=z)"
    c = ast[1]
    if k == "fn":
        return f"g(u)={{ {show(c, level + 1, 'u')} }}({v}+.25)"
    if k == "namespace":
        return f"namespace(lambda u: {{ {show(c, level + 1, 'u')} }}, '{ns_name(level)}')({v})"
    if k == "scan":
        return f"scan(lambda c,e: {{ {show(c, level + 1, '.5*c+e')} }}, {v}, xs[3])"
    if k == "vmap":
        return f"jax.vmap(lambda u: {{ {show(c, level + 1, 'u')} }})({v}+lanes[2])"
    if k == "modular_vmap":
        return f"modular_vmap(lambda u: {{ {show(c, level + 1, 'u')} }})({v}+lanes[2])"
    if k == "later":
        return f"r={{ {show(c, level + 1, v)} }}; save(a=r-1)"
    if k == "earlier":
        return f"save(a={v}-1); namespace(lambda: save(b=5*{v}),'n')(); namespace(lambda: save(b=5*{v}),'m')(); {show(c, level + 1, v)}"
    raise HarnessError(k)


# ---------------------------------------------------------------- compiler: AST -> real genjax/JAX function


def compile_program(ast):
    import jax
    import jax.numpy as jnp
    from genjax import modular_vmap, normal
    from genjax.state import namespace, save

    def build(node, level, xs):
        k = node[0]
        if k == "save":

            def g(v):
                d = save(a=v * 2.0)
                return d["a"] * 0.25 + 1.0

            return g
        if k == "multi":

            def g(v):
                d = save(a=v + 1.0, b=v * 3.0)
                return 0.25 * (d["a"] + d["b"])

            return g
        if k == "const":

            def g(v):
                save(k=jnp.float32(7.0))
                return v - 0.5

            return g
        if k == "leaf":

            def g(v):
                t = namespace(lambda: save(v, v * 2.0), "leaf")()
                return 0.5 * t[0] + 0.125 * t[1]

            return g
        if k == "bareleaf":

            def g(v):
                t = save(v, v * 2.0)
                return 0.5 * t[0] + 0.125 * t[1]

            return g
        if k == "sample":

            def g(v):
                z = normal.sample(v, 1.0)
                save(z=z)
                return 0.5 * v + 0.25 * z

            return g
        child = build(node[1], level + 1, xs)
        if k == "fn":

            def g(v):
                def inner(u):
                    w = child(u + 0.25)
                    return w - 0.125

                return inner(v)

            return g
        if k == "namespace":
            return namespace(child, ns_name(level))
        if k == "scan":

            def g(v):
                def body(c, e):
                    r = child(0.5 * c + e)
                    return r, r * 2.0 - e

                c, ys = jax.lax.scan(body, v, xs)
                return c + 0.1 * jnp.sum(ys)

            return g
        if k in ("vmap", "modular_vmap"):
            vm = jax.vmap if k == "vmap" else modular_vmap

            def g(v):
                r = vm(child)(v + jnp.asarray(LANES, jnp.float32))
                return jnp.sum(r * jnp.asarray(LANE_W, jnp.float32))

            return g
        if k == "later":

            def g(v):
                u = child(v)
                save(a=u - 1.0)
                return u

            return g
        if k == "earlier":

            def g(v):
                save(a=v - 1.0)
                namespace(lambda: save(b=v * 5.0), "n")()
                namespace(lambda: save(b=v * 5.0), "m")()
                return child(v)

            return g
        raise HarnessError(k)

    def f(x, xs):
        return build(ast, 0, xs)(x)

    return f


# ---------------------------------------------------------------- reference: AST -> (result, collected) in NumPy


def _merge(dst, src):
    """Later write wins; namespaces (dicts) merge."""
    for k, v in src.items():
        if isinstance(v, dict) and isinstance(dst.get(k), dict):
            _merge(dst[k], v)
        else:
            dst[k] = v
    return dst


def _stack(ds):
    d0 = ds[0]
    if isinstance(d0, dict):
        return {k: _stack([d[k] for d in ds]) for k in d0}
    if isinstance(d0, tuple):
        return tuple(_stack([d[i] for d in ds]) for i in range(len(d0)))
    return np.stack([np.asarray(d, np.float64) for d in ds], axis=0)


def ref_eval(node, v, idx, level, zsrc):
    k = node[0]
    if k == "save":
        return 0.5 * v + 1.0, {"a": np.float64(2.0 * v)}
    if k == "multi":
        return v + 0.25, {"a": np.float64(v + 1.0), "b": np.float64(3.0 * v)}
    if k == "const":
        return v - 0.5, {"k": np.float64(7.0)}
    if k == "leaf":
        return 0.75 * v, {"leaf": (np.float64(v), np.float64(2.0 * v))}
    if k == "bareleaf":
        # the value of the enclosing namespace itself
        return 0.75 * v, (np.float64(v), np.float64(2.0 * v))
    if k == "sample":
        z = zsrc(idx)
        return 0.5 * v + 0.25 * z, {"z": np.float64(z)}
    c = node[1]
    if k == "fn":
        w, d = ref_eval(c, v + 0.25, idx, level + 1, zsrc)
        return w - 0.125, d
    if k == "namespace":
        w, d = ref_eval(c, v, idx, level + 1, zsrc)
        return w, {ns_name(level): d}
    if k == "scan":
        carry, ds, ys = v, [], []
        for t, e in enumerate(XS):
            r, d = ref_eval(c, 0.5 * carry + e, idx + (t,), level + 1, zsrc)
            ds.append(d)
            ys.append(2.0 * r - e)
            carry = r
        return carry + 0.1 * sum(ys), _stack(ds)
    if k in ("vmap", "modular_vmap"):
        rs, ds = [], []
        for i, l in enumerate(LANES):
            r, d = ref_eval(c, v + l, idx + (i,), level + 1, zsrc)
            rs.append(r)
            ds.append(d)
        return sum(w * r for w, r in zip(LANE_W, rs)), _stack(ds)
    if k == "later":
        u, d = ref_eval(c, v, idx, level + 1, zsrc)
        return u, _merge(d, {"a": np.float64(u - 1.0)})
    if k == "earlier":
        first = {"a": np.float64(v - 1.0), "n": {"b": np.float64(5.0 * v)}, "m": {"b": np.float64(5.0 * v)}}
        u, d = ref_eval(c, v, idx, level + 1, zsrc)
        return u, _merge(first, d)
    raise HarnessError(k)


def z_site(chain):
    """Static position of the sampling site: namespace path and stacking dims (outer first)."""
    path, dims = [], []
    for level, w in enumerate(chain[:-1]):
        if w == "namespace":
            path.append(ns_name(level))
        elif w in SIZE:
            dims.append(SIZE[w])
    return tuple(path), tuple(dims)


# ---------------------------------------------------------------- comparison


def _kind(x):
    if isinstance(x, dict):
        return "dict"
    if isinstance(x, (tuple, list)):
        return "tuple"
    return "leaf"


def _brief(x):
    if isinstance(x, dict):
        return {k: _brief(v) for k, v in x.items()}
    if isinstance(x, (tuple, list)):
        return [_brief(v) for v in x]
    if x is None:
        return None
    return "shape" + str(list(np.shape(x)))


def compare(got, want, path=()):
    """First discrepancy between the collected tree and the reference tree, or None."""
    kg, kw = _kind(got), _kind(want)
    if kg != kw:
        return ("container", path, f"reference {kw}, collected {kg}")
    if kw == "dict":
        if set(got) != set(want):
            return ("keys", path, f"reference {sorted(want)}, collected {sorted(got)}")
        for k in sorted(want):
            r = compare(got[k], want[k], path + (k,))
            if r:
                return r
        return None
    if kw == "tuple":
        if len(got) != len(want):
            return ("container", path, f"reference tuple of {len(want)}, collected {len(got)}")
        for i in range(len(want)):
            r = compare(got[i], want[i], path + (i,))
            if r:
                return r
        return None
    g, w = np.asarray(got, np.float64), np.asarray(want, np.float64)
    if g.shape != w.shape:
        sub = "shape"
        if sorted(g.shape) == sorted(w.shape):
            for perm in itertools.permutations(range(g.ndim)):
                t = np.transpose(g, perm)
                if t.shape == w.shape and H.close(t, w, rtol=1e-4, atol=1e-5):
                    sub = "axes-order"
                    break
        return (sub, path, f"reference shape {list(w.shape)}, collected shape {list(g.shape)}")
    if not H.close(g, w, rtol=1e-4, atol=1e-5):
        return ("values", path, f"reference {w.tolist()}, collected {g.tolist()}")
    return None


def _get(d, path):
    for k in path:
        if not isinstance(d, dict) or k not in d:
            return None
        d = d[k]
    return d


# ---------------------------------------------------------------- one program


def _configs(chain, tier="thorough"):
    # an unseeded sampling site cannot be lowered (jit, scan bodies) by design: the jit
    # configuration of a sampling program is jit(seed(state(f)))
    if chain[-1] != "sample":
        return ("eager", "jit")
    if tier == "quick" and len(chain) == 4:
        # the quick depth-3 subset always has the site in a scan body (no unseeded run); the
        # seeded executions cost seconds each: jit(seed) of these is left to the thorough tier
        return ("seed",)
    return ("eager", "seed", "jit-seed")


def run_program(res, chain, seed, configs=None, verbose=False, seam=False):
    """seam=True (thorough tier; needs env.install()): the draws of the seeded eager execution
    are also recorded at the sampler seam and matched against the saved ones."""
    import jax
    import jax.numpy as jnp
    import genjax
    from genjax.core import handler_stack
    from genjax.state import state
    from mc import env

    ast = to_ast(chain)
    f = compile_program(ast)
    sf = state(f)
    x = jnp.float32(X0)
    xs = jnp.asarray(XS, jnp.float32)
    key = jax.random.key(seed * 7919 + 19)
    has_z = chain[-1] == "sample"
    zpath, zdims = z_site(chain)
    det0 = {"chain": list(chain), "program": "f(x, xs) = { " + show(ast) + " }", "x": X0, "xs": list(XS), "lanes": list(LANES)}

    # reference without draws (draw-free programs): also validates compiler vs reference
    ref_r = ref_d = None
    if not has_z:
        ref_r, ref_d = ref_eval(ast, X0, (), 0, None)

    def fail(family, cfg, **kw):
        res.violate(PROP, f"{family}:{construct(chain)}" + (f":{cfg}" if family == "raises" else ""), family=family, config=cfg, **det0, **kw)

    BASE = {"eager": "plain", "jit": "plain", "seed": "seeded", "jit-seed": "seeded"}
    base_cache = {}

    def run_base(cfg, jitted=False):
        """f without state. The jit configurations compare with the eager run of the same
        program (jit of f itself is only executed to confirm that an exception is state's)."""
        kind = (BASE[cfg], jitted)
        if kind not in base_cache:
            g = f if BASE[cfg] == "plain" else genjax.seed(f)
            a = (x, xs) if BASE[cfg] == "plain" else (key, x, xs)
            handler_stack.clear()
            try:
                base_cache[kind] = ("ok", np.asarray(jax.block_until_ready((jax.jit(g) if jitted else g)(*a)), np.float64))
                res.evaluations += 1
            except Exception as ex:
                handler_stack.clear()
                base_cache[kind] = ("raises", ex)
        return base_cache[kind]

    def skip(cfg, ex):
        # not a statement about state(): the program itself is not executable here
        res.notes.setdefault("base_program_raises", [])
        ws = chain[:-1]
        tag = ATOM_NAME[chain[-1]] + (" under jax.vmap" if "vmap" in ws else "") + (" in a scan body" if "scan" in ws else "") + f":{cfg}:{type(ex).__name__}"
        if tag not in res.notes["base_program_raises"]:
            res.notes["base_program_raises"].append(tag)
        res.notes["skipped_executions"] = res.notes.get("skipped_executions", 0) + 1
        if verbose:
            print(cfg, "base program raises", type(ex).__name__, str(ex)[:200])

    for cfg in configs or _configs(chain):
        if cfg == "eager":
            wrapped, args = sf, (x, xs)
        elif cfg == "jit":
            wrapped, args = jax.jit(sf), (x, xs)
        elif cfg == "seed":
            wrapped, args = genjax.seed(sf), (key, x, xs)
        else:
            wrapped, args = jax.jit(genjax.seed(sf)), (key, x, xs)
        # --- the program without `state`
        st, r0 = run_base(cfg)
        if st == "raises":
            skip(cfg, r0)
            continue
        if not has_z:
            if np.shape(r0) != () or not H.close(r0, ref_r, rtol=1e-4, atol=1e-5):
                raise HarnessError(f"compiler and reference disagree on {chain} ({cfg}): f={r0} reference={ref_r}")
        # --- state(f)
        res.transitions += 1
        res.states += 1
        events = None
        try:
            if cfg == "seed" and seam:
                (r, d), events = env.run_recorded(wrapped, *args, mode="monitor")
            else:
                r, d = jax.block_until_ready(wrapped(*args))
            res.evaluations += 1
        except Exception as ex:
            handler_stack.clear()
            if cfg.startswith("jit"):
                stj, exj = run_base(cfg, jitted=True)
                if stj == "raises":
                    skip(cfg, exj)
                    continue
            if verbose:
                print(cfg, "state(f) raises", type(ex).__name__, str(ex)[:300])
            fail("raises", cfg, error=f"{type(ex).__name__}: {str(ex)[:300]}")
            continue
        r = np.asarray(r, np.float64)
        if verbose:
            print(cfg, "result", r, "f:", r0, "collected", _brief(d))
        # --- reference (the draws of the sampling site are read from the collected dict)
        z_ok = True
        if has_z:
            zarr = _get(d, zpath + ("z",))
            cands = []
            if zarr is not None and not isinstance(zarr, (dict, tuple, list)):
                za = np.asarray(zarr, np.float64)
                if za.shape == zdims:
                    cands = [za]
                elif sorted(za.shape) == sorted(zdims):
                    # right draws under permuted axes? (reported as an axis-order problem below)
                    cands = [np.transpose(za, p) for p in itertools.permutations(range(za.ndim)) if np.transpose(za, p).shape == zdims]
            z_ok = False
            want_r, want_d = ref_eval(ast, X0, (), 0, lambda idx: 0.0)
            for zc in cands:
                wr, wd = ref_eval(ast, X0, (), 0, lambda idx, zc=zc: float(zc[idx]))
                if not z_ok or H.close(r, wr, rtol=1e-4, atol=1e-5):
                    z_ok, want_r, want_d = True, wr, wd
                    if H.close(r, wr, rtol=1e-4, atol=1e-5):
                        break
        else:
            want_r, want_d = ref_r, ref_d
        bad = False
        # 1. transparency
        comparable = (not has_z) or cfg != "eager"
        if np.shape(r) != np.shape(r0) or (comparable and not H.close(r, r0, rtol=2e-5, atol=2e-6)):
            fail("result-changed", cfg, with_state=r, without_state=r0)
            bad = True
        elif z_ok and not H.close(r, want_r, rtol=1e-4, atol=1e-5):
            # the value that flowed on is not the value that was saved
            fail("result-changed", cfg, with_state=r, reference_from_saved_draws=want_r)
            bad = True
        # 2. the collected dictionary
        c = compare(d, want_d)
        if c:
            sub, path, msg = c
            if sub == "axes-order":
                # Right values, stacked over the iteration axis AND batched, only with the two
                # axes in the other order (state around vmap-of-scan gives (T, B)). The property
                # says "stacked along the iteration axis" and "batched" without fixing the
                # relative position of the two axes: not a violation (counted, not reported).
                res.notes["axis_order_T_before_B_accepted"] = res.notes.get("axis_order_T_before_B_accepted", 0) + 1
            else:
                fail("collected", cfg, problem=sub, at=[str(p) for p in path], message=msg[:600], collected=_brief(d), reference=_brief(want_d))
                bad = True
        elif has_z and events is not None:
            seen = np.sort(np.concatenate([np.asarray(e.value, np.float64).reshape(-1) for e in events] or [np.zeros(0)]))
            saved = np.sort(np.asarray(_get(d, zpath + ("z",)), np.float64).reshape(-1))
            if seen.shape != saved.shape or not H.close(seen, saved, rtol=1e-6, atol=1e-7):
                fail("collected", cfg, problem="draws", message="saved draws are not the draws made at the sampler", sampler_draws=seen, saved=saved)
                bad = True
        if not bad:
            res.validated += 1
        res.case(chain, cfg)
    return ref_d


def work(item, tier, seed):
    seam = tier == "thorough"
    if seam:  # the seam (an io_callback per draw) roughly doubles the cost of a seeded run
        from mc import env

        env.install()
    res = H.Result()
    _tag, k, n = item
    progs = programs(tier)[k::n]  # strided chunk: every item gets the same mix of depths
    for i, chain in enumerate(progs):
        ref_d = run_program(res, chain, seed, configs=_configs(chain, tier), seam=seam)
        if len(chain) > 1:
            res.nontrivial += 1
        if (k + i * n) % 97 == 3:
            res.add_sample({"program": "f(x, xs) = { " + show(to_ast(chain)) + " }", "configs": list(_configs(chain, tier)), "reference_collected": _brief(ref_d) if ref_d is not None else "depends on the draws"})
    return res


# ---------------------------------------------------------------- signatures: minimal failing chain


def _subchains(chain):
    ws, atom = chain[:-1], chain[-1]
    n = len(ws)
    for r in range(0, n + 1):
        for keep in itertools.combinations(range(n), r):
            sub = tuple(ws[i] for i in keep)
            for a in ("save", atom) if atom != "save" else ("save",):
                yield sub + (a,)


def _minimise(violations):
    """Rewrite every signature to name the smallest enumerated sub-chain failing the same way."""
    fails = {}
    for v in violations:
        fam = v.detail["family"] + (":" + v.detail["config"] if v.detail["family"] == "raises" else "")
        fails.setdefault(fam, set()).add(tuple(v.detail["chain"]))
    for v in violations:
        fam = v.detail["family"] + (":" + v.detail["config"] if v.detail["family"] == "raises" else "")
        chain = tuple(v.detail["chain"])
        cands = [s for s in _subchains(chain) if s in fails[fam]]
        best = min(cands, key=lambda s: (len(s), s[-1] != "save", s))
        v.detail["minimal_failing_chain"] = list(best)
        v.sig = f"{v.detail['family']}:{construct(best)}" + (f":{v.detail['config']}" if v.detail["family"] == "raises" else "")
    # representative of a signature = its minimal program
    violations.sort(key=lambda v: (v.detail["chain"] != v.detail["minimal_failing_chain"], len(v.detail["chain"]), v.detail["config"]))


def main(tier, seed):
    t0 = time.time()
    progs = programs(tier)
    n_items = 47 if tier == "quick" else 127  # prime: the atom cycle must not align with the stride
    items = [(f"chunk{k:03d}", k, n_items) for k in range(n_items)]
    only = os.environ.get("VERIF_ONLY")
    if only:
        items = [it for it in items if only in str(it)]
    res, errors = H.fan_out("checks.c19", "work", items, tier, seed)
    failing_programs = sorted({tuple(v.detail["chain"]) for v in res.violations})
    _minimise(res.violations)
    by_depth = {}
    for c in progs:
        by_depth[len(c) - 1] = by_depth.get(len(c) - 1, 0) + 1
    extra = {
        "programs": len(progs),
        "programs_by_nesting_depth": {str(k): v for k, v in sorted(by_depth.items())},
        "programs_with_a_failing_configuration": len(failing_programs),
        "failing_signatures": sorted({v.sig for v in res.violations}),
        "work_items": len(items),
    }
    rule = (
        "every wrapper chain over {nested function, namespace, scan(len 3), jax.vmap(2 lanes), modular_vmap(2 lanes), later write to the same name, "
        "earlier writes to the same name and namespaces} of nesting depth <= 3 (thorough) / <= 2 completely + a fixed subset of depth 3 (quick: all "
        "chains of function/namespace/scan/vmap/modular_vmap containing a scan and those with one sibling write + scan + namespace|scan|vmap over the plain save; "
        "scan/namespace/vmap chains over the leaf saves; scan/namespace/modular_vmap chains over the sampled save), around each of 6 atoms {named save, two names "
        "in one save, constant save, leaf-mode save in its own namespace, bare leaf-mode save (under a namespace wrapper only), sampled value saved}; "
        "x {eager, jit} or, with the sampling site, {eager, seed, jit(seed)} (quick, depth 3: seed only). states = executions of state(f) compared with f and the NumPy reference "
        "collector; transitions = real state(f) calls; a program whose un-wrapped f raises in a configuration is skipped there (base_program_raises)"
    )
    assumptions = [
        "one scalar input value, one scan length (3) and one vmap width (2): the interpreter's paths depend on the structure of the jaxpr, not on the values",
        "programs are single chains of wrappers (siblings only through the fixed earlier/later writes); sequences of two arbitrary sub-programs are not enumerated",
        "the draws of the sampling site are taken from the collected 'z' after its position and shape were checked; result == reference (carry-dependent over scan steps, lane-weighted over vmap lanes) then ties them to the values that flowed on; thorough tier: they are also matched against the draws seen at the sampler seam",
        "jit configurations are compared with the eager run of the same un-wrapped program (jit of f itself is only executed to attribute an exception)",
        "save inside lax.cond branches, inside a nested jax.jit, while_loop/fori_loop and grad are outside the enumerated grammar",
    ]
    return H.finish(PROP, tier, seed, "model_checking", res, errors, t0, rule, assumptions, extra)


def replay(path):
    from mc import env

    env.install()
    j = json.load(open(path))
    d = j["detail"]
    print("replaying", j["sig"])
    print(d["program"])
    chain = tuple(d.get("minimal_failing_chain") or d["chain"])
    if chain != tuple(d["chain"]):
        print("minimal failing chain:", chain, "->", "f(x, xs) = { " + show(to_ast(chain)) + " }")
    res = H.Result()
    seed = int(os.environ.get("VERIF_SEED", "0") or 0)
    cfgs = [d["config"]] if d["config"] in _configs(chain) else None
    run_program(res, chain, seed, configs=cfgs, verbose=True, seam=True)
    ref = ref_eval(to_ast(chain), X0, (), 0, (lambda idx: 0.0))
    print("reference collected (draws as 0):", _brief(ref[1]))
    for v in res.violations:
        print("VIOLATION", v.sig, json.dumps(H.jsonable({k: v.detail[k] for k in v.detail if k not in ("program", "chain")}))[:800])
    return 1 if res.violations else 0
