"""C14  Unseeded sampling can never be compiled into a fixed-randomness program.

Exhaustive over placements: a sampling site {built-in, user-wrapped, ADEV primitive} placed
inside every construct of {jit, scan, while_loop, fori_loop, cond, switch, grad,
value_and_grad, checkpoint, custom_jvp, vmap (mapped operand reaches the site / does not),
nested jit} and inside every ORDERED PAIR of them (depth 2), unseeded and seeded.
Oracle.  unseeded: a placement that compiles (any construct that lowers a jaxpr on the path)
must raise exactly LoweringSamplePrimitiveToMLIRException and never return; plain jax.vmap
over a site must raise (never replicate one draw); a non-compiling eager placement may sample.
seeded: seed(f)(key, x) either raises the same dedicated error, or returns and then (a) the
jaxpr of seed(f), walked recursively, contains NO sample / adev-sample equation, (b)
jit(seed(f)) compiles and agrees, (c) two keys give different continuous draws -- never a
value that silently uses hidden randomness.  The module flags stay
(enforce_lowering_exception, lowering_warning) == (True, False) at import and after every call.
"""

from __future__ import annotations

import itertools
import os
import time

import numpy as np

from mc import harness as H

PROP = "C14"

CONSTRUCTS = ("jit", "scan", "while", "fori", "cond", "switch", "grad", "vag", "checkpoint", "custom_jvp", "vmap_mapped", "vmap_unmapped")
COMPILING = {"jit", "scan", "while", "fori", "cond", "switch"}
SITES = ("builtin", "user", "adev")


def _site(kind):
    import jax.numpy as jnp
    from genjax import normal
    from genjax.core import tfp_distribution
    from tensorflow_probability.substrates import jax as tfp

    if kind == "builtin":
        return lambda m: normal.sample(m, 1.0)
    if kind == "user":
        global _USER
        try:
            d = _USER
        except NameError:
            d = _USER = tfp_distribution(lambda m: tfp.distributions.Laplace(m, 1.0), name="UserLaplace")
        return lambda m: d.sample(m)
    from genjax.adev import normal_reparam

    return lambda m: normal_reparam(m, 1.0)


def _wrap(name, g):
    """Place g (x -> scalar) inside construct `name`; returns x -> scalar."""
    import jax
    import jax.numpy as jnp

    if name == "jit":
        return lambda x: jax.jit(g)(x)
    if name == "scan":
        return lambda x: jax.lax.scan(lambda c, _: (c + g(x), None), 0.0 * x, None, length=2)[0]
    if name == "while":
        return lambda x: jax.lax.while_loop(lambda s: s[0] < 2, lambda s: (s[0] + 1, s[1] + g(x)), (0, 0.0 * x))[1]
    if name == "fori":
        return lambda x: jax.lax.fori_loop(0, 2, lambda i, c: c + g(x), 0.0 * x)
    if name == "cond":
        return lambda x: jax.lax.cond(x > -100.0, lambda: g(x), lambda: 0.0 * x)
    if name == "switch":
        return lambda x: jax.lax.switch(1, [lambda: 0.0 * x, lambda: g(x)])
    if name == "grad":
        return lambda x: jax.grad(lambda y: y * g(x) + y)(x)
    if name == "vag":
        return lambda x: jax.value_and_grad(lambda y: y * g(x))(x)[0]
    if name == "checkpoint":
        return lambda x: jax.checkpoint(g)(x)
    if name == "custom_jvp":

        @jax.custom_jvp
        def h(y):
            return g(y)

        @h.defjvp
        def h_jvp(p, t):
            return h(p[0]), t[0]

        return lambda x: h(x)
    if name == "vmap_mapped":
        # the mapped operand is the site's parameter
        return lambda x: jnp.sum(jax.vmap(g)(jnp.stack([x, x + 1.0])))
    if name == "vmap_unmapped":
        # the site does not depend on the mapped operand
        return lambda x: jnp.sum(jax.vmap(lambda y: y + g(0.0 * x + 0.3))(jnp.stack([x, x + 1.0])))
    raise ValueError(name)


def _residual_sites(jaxpr, depth=0):
    """Recursively count sample / adev-sample equations in a jaxpr."""
    import jax
    from genjax.pjax import PPPrimitive, sample_p, adev_sample_p

    n = 0
    for eqn in jaxpr.eqns:
        prim, _ = PPPrimitive.unwrap(eqn.primitive)
        if prim in (sample_p, adev_sample_p):
            n += 1
        for v in eqn.params.values():
            for sub in v if isinstance(v, (tuple, list)) else (v,):
                if hasattr(sub, "jaxpr") and hasattr(sub.jaxpr, "eqns"):
                    n += _residual_sites(sub.jaxpr, depth + 1)
                elif hasattr(sub, "eqns"):
                    n += _residual_sites(sub, depth + 1)
    return n


def work(item, tier, seed):
    import jax
    import jax.numpy as jnp
    import genjax.pjax as pjax
    from genjax import seed as gseed
    from genjax.core import handler_stack
    from genjax.pjax import LoweringSamplePrimitiveToMLIRException as LoweringErr

    res = H.Result()
    site_kind, outer = item
    if (pjax.enforce_lowering_exception, pjax.lowering_warning) != (True, False):
        res.violate(PROP, "flags-at-import", flags=[pjax.enforce_lowering_exception, pjax.lowering_warning])
    site = _site(site_kind)
    inners = (None,) + CONSTRUCTS
    x = jnp.float32(0.3)
    for inner in inners:
        path = [outer] + ([inner] if inner else [])
        label = ">".join(path)
        g = site
        if inner:
            g = _wrap(inner, g)
        f = _wrap(outer, g)
        compiling = any(p in COMPILING for p in path)
        has_vmap = any(p.startswith("vmap") for p in path)
        det = {"site": site_kind, "placement": label}
        # ------------------------------------------------ unseeded
        res.transitions += 1
        res.states += 1
        res.validated += 1
        try:
            v = f(x)
            v = np.asarray(jax.block_until_ready(v))
            outcome = ("value", v)
        except LoweringErr:
            outcome = ("lowering-error", None)
        except Exception as ex:
            outcome = ("other-error", f"{type(ex).__name__}: {str(ex)[:160]}")
        handler_stack.clear()
        res.evaluations += 1
        if has_vmap:
            # plain jax.vmap over a site must raise (dedicated error or the batching refusal)
            if outcome[0] == "value":
                res.violate(PROP, f"unseeded-vmap-returns-a-value:{site_kind}:{label}", value=outcome[1], **det)
        elif compiling:
            if outcome[0] != "lowering-error":
                res.violate(PROP, f"unseeded-compiling-placement-not-refused:{site_kind}:{label}", outcome=outcome[0], info=outcome[1], **det)
        else:
            if outcome[0] == "other-error":
                res.notes.setdefault("eager_placements_raising_other_errors", []).append(f"{site_kind}:{label}:{outcome[1][:60]}")
        # ------------------------------------------------ seeded
        sf = gseed(f)
        k1, k2 = jax.random.key(11 + seed), jax.random.key(12 + seed)
        res.transitions += 1
        res.states += 1
        res.validated += 1
        try:
            a = np.asarray(jax.block_until_ready(sf(k1, x)))
            b = np.asarray(jax.block_until_ready(sf(k2, x)))
            s_out = ("value", a, b)
        except LoweringErr:
            s_out = ("lowering-error",)
        except Exception as ex:
            s_out = ("other-error", f"{type(ex).__name__}: {str(ex)[:200]}")
        handler_stack.clear()
        res.evaluations += 2
        if s_out[0] == "value":
            a, b = s_out[1], s_out[2]
            if np.array_equal(a, b):
                res.violate(PROP, f"seeded-result-ignores-the-key:{site_kind}:{label}", value_key1=a, value_key2=b, **det)
            try:
                jp = jax.make_jaxpr(sf)(k1, x)
                n = _residual_sites(jp.jaxpr)
                if n:
                    res.violate(PROP, f"seeded-jaxpr-has-residual-site:{site_kind}:{label}", residual_sites=n, **det)
            except LoweringErr:
                pass
            except Exception as ex:
                res.notes.setdefault("make_jaxpr_errors", []).append(f"{label}:{type(ex).__name__}")
            try:
                c = np.asarray(jax.block_until_ready(jax.jit(sf)(k1, x)))
                res.evaluations += 1
                if not H.close(c, a, rtol=1e-5, atol=1e-6):
                    res.violate(PROP, f"seeded-jit-differs-from-eager:{site_kind}:{label}", eager=a, jit=c, **det)
            except LoweringErr:
                # eager returned a value but compiling the same seeded function refuses: the eager
                # value came from a site seed did not interpret
                res.violate(PROP, f"seeded-eager-value-but-jit-refuses:{site_kind}:{label}", eager_value=a, **det)
            except Exception as ex:
                res.violate(PROP, f"seeded-jit-raises:{site_kind}:{label}", error=f"{type(ex).__name__}: {str(ex)[:200]}", **det)
            handler_stack.clear()
        elif s_out[0] == "other-error":
            if not has_vmap:
                res.violate(PROP, f"seeded-raises-other-error:{site_kind}:{label}", error=s_out[1], **det)
            else:
                res.notes.setdefault("seeded_vmap_placements_refused_with", []).append(f"{label}:{s_out[1][:50]}")
        if (pjax.enforce_lowering_exception, pjax.lowering_warning) != (True, False):
            res.violate(PROP, "flags-changed", after=label, flags=[pjax.enforce_lowering_exception, pjax.lowering_warning])
        res.case(site_kind, label)
        if not res.samples:
            res.add_sample(dict(det, unseeded=outcome[0], seeded=s_out[0]))
    return res


def items(tier):
    its = []
    for s in SITES if tier == "thorough" else ("builtin", "adev", "user"):
        for o in CONSTRUCTS:
            its.append((s, o))
    return its


def main(tier, seed):
    t0 = time.time()
    its = items(tier)
    only = os.environ.get("VERIF_ONLY")
    if only:
        its = [it for it in its if only in str(it)]
    res, errors = H.fan_out("checks.c14", "work", its, tier, seed)
    rule = "site kind {builtin, user-wrapped, ADEV} x every construct and every ordered pair of 12 constructs (156 placements) x {unseeded, seeded (eager, make_jaxpr walk, jit, 2 keys)}; states = (placement, mode) outcomes classified, transitions = real calls"
    return H.finish(PROP, tier, seed, "model_checking", res, errors, t0, rule, ["pmap is not explored (single CPU device; same lowering path as jit)"], {"work_items": len(its), "placements_per_site": len(CONSTRUCTS) * (len(CONSTRUCTS) + 1)})


def replay(path):
    import json

    j = json.load(open(path))
    print(json.dumps(j, indent=1)[:3000])
    d = j["detail"]
    os.environ["VERIF_ONLY"] = f"('{d.get('site')}', '{d.get('placement', '').split('>')[0]}')"
    return main("quick", int(os.environ.get("VERIF_SEED", "0") or 0))
