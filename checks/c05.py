"""C05  Traces stay coherent under any history of edits and inference moves.

Explicit-state breadth-first search over operation histories on the REAL trace objects
(traces are immutable pytrees: a state keeps the live trace; every edge is one real call).
Models: chain with an observed leaf; Vmap with vector-valued addresses; Scan state space;
Cond mixture (indicator feeding a Cond with an observed component); a batched (vectorised)
trace of the chain model.
Alphabet (every op with its randomness scripted, each scripted outcome its own edge):
  update (2 argument values x constraint patterns none / one latent / all latents),
  regenerate (selections x {first, last} menu outcome),
  mh / mala / hmc (selections; accept AND reject, by scripting the uniform),
  jit round trip; for the batched trace: lane indexing via resample_vectorized_trace with
  scripted ancestor tuples, and a vectorised mh move.
Invariant in EVERY reachable state (depth <= 3 quick / 4 thorough): score == -assess(choices;
stored args) == -ref.logp; retval == ref.retval; observed addresses hold their original
bits; two histories reaching the same canonical (choices, args) agree on score and retval;
along update-only histories the sum of weights == ref.logp(last) - ref.logp(first).
"""

from __future__ import annotations

import collections
import os
import time

import numpy as np

from mc import harness as H

PROP = "C05"


def _models():
    from mc.lang import Prog, Site, CondCall
    from mc import family as F

    brm_t = Prog("brm_t", ("a",), (Site("v", "normal", ("1.0 + a", "0.6")),), "v")
    brm_f = Prog("brm_f", ("a",), (Site("v", "normal", ("-1.0 + a", "1.2")),), "v")
    mixture = Prog("mixture", ("a",), (Site("z", "flip", ("0.35",)), CondCall("c", brm_t, brm_f, "z", ("a",)), Site("w", "normal", ("c", "1.0"))), "w")
    # branches with different supports; the observation lies outside the True branch's support
    mixsupport = Prog("mixsupport", ("a",), (Site("z", "flip", ("0.35",)), CondCall("c", F.brs_t, F.brs_f, "z", ("a",)), Site("w", "normal", ("c", "1.0"))), "w")
    f32 = np.float32
    return {
        "mixsupport": (mixsupport, [(f32(0.0),), (f32(0.4),)], [("c", "v")], [("z",), ("w",)], [("w",)]),
        # name: (prog, [arg tuples], observed paths, latent paths, continuous latent paths)
        "chain": (F.chain, [(f32(0.3),), (f32(-1.2),)], [("y",)], [("x",)], [("x",)]),
        "vmap": (F.vmap_indep, [(F.A(0.1, 0.7),), (F.A(0.5, -0.4),)], [], [("v", "x"), ("v", "y")], [("v", "y")]),
        "scan": (F.scan_c, [(f32(0.3), F.A(0.5, -0.4)), (f32(-1.2), F.A(1.1, 0.1))], [("y",)], [("s", "z")], [("s", "z")]),
        "mixture": (mixture, [(f32(0.0),), (f32(0.4),)], [("c", "v")], [("z",), ("w",)], [("w",)]),
        "vecparam": (F.vecparam, [(F.A(0.1, 0.7),), (F.A(0.5, -0.4),)], [("y",)], [("x",)], [("x",)]),
    }


def _sel_of(path):
    from genjax import sel

    return sel(path[0]) if len(path) == 1 else sel(tuple(path))


def _scripted(fn, key, targs, pick, force_u=None, noise=None):
    """Run fn(key, *targs) with every draw scripted: model sites take menu entry `pick`,
    Normal(0,1) kernel noise takes `noise`, Uniform(0,1) takes force_u."""
    from mc import env, gfi
    from mc.tree import _undecided, _with

    D = {}
    for _ in range(200):
        out, evs = env.run_recorded(fn, key, *targs, mode="script", decisions=D)
        nxt = _undecided(evs)
        if nxt is None:
            return out, evs
        ev, lane = nxt
        if ev.name == "Uniform" and force_u is not None:
            v = np.float32(force_u)
        elif ev.name == "Normal" and noise is not None and H.close(ev.args[0], 0.0, atol=0, rtol=0) and H.close(ev.args[1], 1.0, atol=0, rtol=0):
            v = np.float32(noise)
        else:
            m = gfi.std_menu(ev, lane)
            v = m[pick % len(m)][0]
        D = _with(D, ev.key, lane, v)
    raise RuntimeError("scripted call did not terminate")


def _ops(mname, prog, argsl, observed, latents, cont, fn, tier):
    """The operation alphabet of a model: list of (label, callable(trace) -> (trace, weight|None, is_update))."""
    import jax
    import jax.numpy as jnp
    from genjax import seed as gseed
    from genjax.inference import mh, mala, hmc
    from mc import ref as R

    key = jax.random.key(9001)
    ops = []
    menu_vals = {"f": (np.float32(-0.7), np.float32(1.3)), "b": (np.bool_(False), np.bool_(True)), "i": (np.int32(0), np.int32(2))}

    def newval(old, j):
        old = np.asarray(old)
        v = menu_vals["f" if old.dtype.kind == "f" else "b" if old.dtype.kind == "b" else "i"][j]
        return np.full(old.shape, v, old.dtype)

    for ai, a in enumerate(argsl):
        ja = tuple(jnp.asarray(x) for x in a)
        pats = [("none", [])] + [(f"one[{'/'.join(p)}]", [p]) for p in latents[:2]] + [("all-latents", list(latents))]
        for pn, ps in pats:
            for j in (0, 1) if ps else (0,):

                jupd = jax.jit(lambda t, c, *a: fn.update(t, c, *a))

                def op(tr, ja=ja, ps=ps, j=j, jupd=jupd):
                    flat = R.flatten(R.to_numpy(tr.get_choices()))
                    cons = R.unflatten({p: newval(flat[p], j) for p in ps}) if ps else None
                    jc = None if cons is None else jax.tree_util.tree_map(jnp.asarray, cons)
                    new, w, _d = jupd(tr, jc, *ja)
                    return new, float(np.asarray(w)), True

                ops.append((f"update(args#{ai},{pn},v{j})", op))
    for p in latents:
        s = _sel_of(p)
        for pick in (0, -1):

            jreg = jax.jit(lambda kk, t, s=s: gseed(lambda tt: fn.regenerate(tt, s, *tt.get_args()[0], **tt.get_args()[1]))(kk, t))

            def op(tr, pick=pick, jreg=jreg):
                (new, w, _d), _e = _scripted(jreg, key, (tr,), pick)
                return new, None, False

            ops.append((f"regenerate({'/'.join(p)},pick{pick})", op))
        for u, lab in ((1e-30, "accept"), (0.999999, "reject")):

            jmh = jax.jit(lambda kk, t, s=s: gseed(lambda tt: mh(tt, s))(kk, t))

            def op(tr, u=u, jmh=jmh):
                new, _e = _scripted(jmh, key, (tr,), -1, force_u=u)
                return new, None, False

            ops.append((f"mh({'/'.join(p)},{lab})", op))
    for p in cont:
        s = _sel_of(p)
        for u, lab in ((1e-30, "accept"), (0.999999, "reject")):

            jmala = jax.jit(lambda kk, t, s=s: gseed(lambda tt: mala(tt, s, 0.3))(kk, t))

            def op(tr, u=u, jmala=jmala):
                new, _e = _scripted(jmala, key, (tr,), 0, force_u=u, noise=0.3)
                return new, None, False

            ops.append((f"mala({'/'.join(p)},{lab})", op))
        if tier == "thorough" or mname in ("chain", "vecparam"):

            jhmc = jax.jit(lambda kk, t, s=s: gseed(lambda tt: hmc(tt, s, 0.2, 2))(kk, t))

            def op(tr, jhmc=jhmc):
                new, _e = _scripted(jhmc, key, (tr,), 0, force_u=1e-30, noise=-1.1)
                return new, None, False

            ops.append((f"hmc({'/'.join(p)},accept)", op))
    ops.append(("jit-roundtrip", lambda tr: (jax.jit(lambda t: t)(tr), None, False)))
    return ops


def _state_key(tr):
    from mc import ref as R

    flat = R.flatten(R.to_numpy(tr.get_choices()))
    a, k = tr.get_args()
    return (
        tuple((p, np.round(np.asarray(v, np.float64), 5).tobytes()) for p, v in sorted(flat.items())),
        tuple(np.round(np.asarray(x, np.float64), 5).tobytes() for x in R.to_numpy(list(a))),
    )


def work(item, tier, seed):
    import jax
    import jax.numpy as jnp
    from genjax.core import handler_stack
    from mc import env, gfi
    from mc import ref as R
    from mc import lang as L

    env.install()
    res = H.Result()
    mname, first = item
    if mname == "batched":
        return _work_batched(res, tier, seed, first)
    prog, argsl, observed, latents, cont = _models()[mname]
    fn = L.compile_prog(prog)
    ja0 = tuple(jnp.asarray(x) for x in argsl[0])
    key = jax.random.key(seed * 7 + 100)
    # initial trace: observations constrained through generate, latents at a corner
    corner = gfi.corner_traces(fn, key, ja0, (0 if mname == "mixsupport" else -1,), res)[0]
    ch0 = jax.tree_util.tree_map(jnp.asarray, gfi.np_choices(corner))
    tr0, _w = fn.generate(ch0, *ja0)
    obs0 = {p: np.asarray(R.flatten(R.to_numpy(tr0.get_choices()))[p]) for p in observed}
    ops = _ops(mname, prog, argsl, observed, latents, cont, fn, tier)
    depth = 3 if tier == "quick" else 4
    if tier == "quick" and mname in ("scan", "vmap", "vecparam"):
        depth = 2  # their operations are the slowest (gradient kernels on vectors / scans); depth 3-4 in thorough
    jassess = jax.jit(lambda c, *a, **k: fn.assess(c, *a, **k))
    seen = {}
    raised = set()

    def check_state(tr, hist, wsum, logp_first):
        a, k = tr.get_args()
        args_np = tuple(np.asarray(x) for x in a)
        det = {"model": mname, "history": hist}
        ro = gfi.check_coherent(res, PROP, "state", mname, prog, args_np, k, tr, detail=det)
        res.validated += 1
        if ro is None:
            return None
        # real assess under the stored args
        try:
            lp, rv = jassess(tr.get_choices(), *a, **k)
            res.evaluations += 1
            if not H.close(float(np.asarray(tr.get_score())), -float(np.sum(np.asarray(lp)))):
                res.violate(PROP, f"score-vs-assess:{mname}", score=float(np.asarray(tr.get_score())), assess=np.asarray(lp), **det)
        except Exception as ex:
            handler_stack.clear()
            res.violate(PROP, f"assess-raises:{mname}", error=f"{type(ex).__name__}: {str(ex)[:200]}", **det)
        flat = R.flatten(R.to_numpy(tr.get_choices()))
        for p, v in obs0.items():
            if not H.bits_equal(flat.get(p), v):
                res.violate(PROP, f"observed-value-changed:{mname}", address=p, original=v, now=flat.get(p), **det)
        if wsum is not None and np.isfinite(ro.logp) and not H.close(wsum, ro.logp - logp_first, rtol=3e-4, atol=3e-4):
            res.violate(PROP, f"update-weights-do-not-telescope:{mname}", weight_sum=wsum, reference=ro.logp - logp_first, **det)
        return ro

    ro0 = check_state(tr0, [], 0.0, None if False else R.run(prog, tuple(np.asarray(x) for x in argsl[0]), gfi.np_choices(tr0)).logp)
    logp_first = ro0.logp if ro0 else 0.0
    frontier = collections.deque()
    # this work item explores the sub-tree below one first operation
    frontier.append((tr0, [], 0.0))
    res.states += 1
    level = 0
    while frontier:
        tr, hist, wsum = frontier.popleft()
        if len(hist) >= depth:
            continue
        for oi, (label, op) in enumerate(ops):
            if not hist and oi != first:
                continue
            res.transitions += 1
            try:
                new, w, is_update = op(tr)
                res.evaluations += 1
            except Exception as ex:
                handler_stack.clear()
                sigk = (label.split("(")[0], type(ex).__name__)
                if sigk not in raised:
                    raised.add(sigk)
                    res.violate(PROP, f"operation-raises:{mname}:{label.split('(')[0]}", operation=label, history=hist, error=f"{type(ex).__name__}: {str(ex)[:300]}")
                continue
            h2 = hist + [label]
            ws2 = (wsum + w) if (wsum is not None and is_update) else (wsum if label == "jit-roundtrip" else None)
            ro = check_state(new, h2, ws2, logp_first)
            if ro is not None and not np.isfinite(ro.logp):
                # the edit moved outside the model's support (density 0): the GFI makes no
                # claim about such traces; do not build histories on top of them
                res.notes["states_outside_support_not_expanded"] = res.notes.get("states_outside_support_not_expanded", 0) + 1
                continue
            k = _state_key(new)
            obs_sig = (float(np.asarray(new.get_score())), gfi.np_choices(new))
            if k in seen:
                sc0, h0 = seen[k]
                if not H.close(sc0, obs_sig[0], rtol=1e-4, atol=1e-4):
                    res.violate(PROP, f"same-state-different-score:{mname}", score_a=sc0, history_a=h0, score_b=obs_sig[0], history_b=h2)
                # still expand if the update-only weight sum is alive along this path
                if ws2 is None or len(h2) >= depth:
                    continue
            else:
                seen[k] = (obs_sig[0], h2)
                res.states += 1
                res.case(mname, k)
                if len(seen) % 199 == 1 or not res.samples:
                    res.add_sample({"model": mname, "history": h2, "choices": R.flatten(gfi.np_choices(new)), "score": obs_sig[0]})
            frontier.append((new, h2, ws2))
    res.notes["max_depth"] = depth
    res.notes["alphabet"] = len(ops)
    return res


def _work_batched(res, tier, seed, first):
    """Vectorised traces: lane indexing / resampling with scripted ancestors, vectorised mh."""
    import itertools

    import jax
    import jax.numpy as jnp
    from genjax import seed as gseed, sel, modular_vmap
    from genjax.core import handler_stack
    from genjax.inference import mh
    from genjax.inference.smc import resample_vectorized_trace
    from mc import env, gfi
    from mc import ref as R
    from mc import lang as L
    from mc import family as F

    prog = F.chain
    fn = L.compile_prog(prog)
    N = 2 if tier == "quick" else 3
    key = jax.random.key(seed * 7 + 300)
    a = jnp.asarray(np.float32(0.3))
    cons = {"y": jnp.float32(0.4)}
    vt, _w = gseed(modular_vmap(lambda: fn.generate(cons, a), in_axes=(), axis_size=N))(key)

    def lane_check(vtr, hist):
        ch = R.to_numpy(vtr.get_choices())
        sc = np.asarray(vtr._score, np.float64)
        rv = np.asarray(vtr.get_retval())
        for i in range(N):
            ci = {k: v[i] for k, v in ch.items()}
            ro = R.run(prog, (np.float32(0.3),), ci)
            res.validated += 1
            if not H.close(sc[i], -ro.logp):
                res.violate(PROP, "batched-lane-score", lane=i, score=sc[i], reference=-ro.logp, history=hist, choices=ci)
            if not H.close(rv[i], ro.retval):
                res.violate(PROP, "batched-lane-retval", lane=i, retval=rv[i], reference=ro.retval, history=hist)
            if not H.bits_equal(ci["y"], np.float32(0.4)):
                res.violate(PROP, "batched-observed-changed", lane=i, history=hist)

    ops = []
    for idx in itertools.product(range(N), repeat=N):

        def op(v, idx=idx):
            f = lambda kk, t: gseed(lambda tt: resample_vectorized_trace(tt, jnp.zeros(N), N, "categorical"))(kk, t)
            out, evs = env.run_recorded(f, key, v, mode="monitor")
            D = {evs[0].key: {l: np.int32(i) for l, i in enumerate(idx)}}
            out, evs = env.run_recorded(f, key, v, mode="script", decisions=D)
            return out

        ops.append((f"resample_vectorized_trace{idx}", op))
    for u, lab in ((1e-30, "accept"), (0.999999, "reject")):

        def op(v, u=u):
            f = lambda kk, t: gseed(modular_vmap(lambda tt: mh(tt, sel("x")), in_axes=(0,)))(kk, t)
            out, evs = env.run_recorded(f, key, v, mode="monitor")
            D = {}
            for e in evs:
                if e.name == "Uniform":
                    D[e.key] = {l: np.float32(u) for l in range(e.lanes())}
                else:
                    D[e.key] = {l: np.float32((-0.7, 0.4, 1.3)[l % 3]) for l in range(e.lanes())}
            out, evs = env.run_recorded(f, key, v, mode="script", decisions=D)
            return out

        ops.append((f"vmapped-mh({lab})", op))
    ops.append(("jit-roundtrip", lambda v: jax.jit(lambda t: t)(v)))
    depth = 3 if tier == "quick" else 4
    lane_check(vt, [])
    res.states += 1
    frontier = collections.deque([(vt, [])])
    seen = set()
    while frontier:
        v, hist = frontier.popleft()
        if len(hist) >= depth:
            continue
        for oi, (label, op) in enumerate(ops):
            if not hist and oi % 4 != first:
                continue
            res.transitions += 1
            try:
                nv = op(v)
                res.evaluations += 1
            except Exception as ex:
                handler_stack.clear()
                res.violate(PROP, f"operation-raises:batched:{label.split('(')[0]}", operation=label, history=hist, error=f"{type(ex).__name__}: {str(ex)[:300]}")
                continue
            h2 = hist + [label]
            lane_check(nv, h2)
            k = tuple(np.round(np.asarray(l, np.float64), 5).tobytes() for l in jax.tree_util.tree_leaves(nv.get_choices()))
            if k in seen:
                continue
            seen.add(k)
            res.states += 1
            res.case("batched", k)
            if not res.samples:
                res.add_sample({"model": "batched chain", "history": h2, "choices": R.flatten(R.to_numpy(nv.get_choices()))})
            frontier.append((nv, h2))
    return res


def items(tier):
    its = []
    import sys

    for m, (prog, argsl, obs, lat, cont) in _models().items():
        n_ops = 0
        # count ops without compiling: update ops + per-latent ops
        pats = 1 + 2 * min(2, len(lat)) + 2
        n_ops = len(argsl) * pats + len(lat) * 4 + len(cont) * 2 + (len(cont) if (tier == "thorough" or m in ("chain", "vecparam")) else 0) + 1
        for f in range(n_ops):
            its.append((m, f))
    for f in range(4):
        its.append(("batched", f))
    return its


def main(tier, seed):
    t0 = time.time()
    its = items(tier)
    only = os.environ.get("VERIF_ONLY")
    if only:
        its = [it for it in its if only in str(it)]
    res, errors = H.fan_out("checks.c05", "work", its, tier, seed)
    rule = (
        "BFS over operation histories (depth 3 quick [2 for the scan / vmap / vecparam models] / 4 thorough) from a generated trace of 5 models + a batched trace; alphabet of ~20 operations "
        "per model (update x args x constraint patterns, regenerate x outcomes, mh/mala/hmc accept+reject, jit round trip; resampling with every "
        "ancestor tuple and vectorised mh for the batched trace); states = distinct canonical (choices,args) states, transitions = real operations; "
        "each work item explores the sub-tree below one first operation"
    )
    return H.finish(PROP, tier, seed, "model_checking", res, errors, t0, rule, ["states are deduplicated on (choices, args) rounded to 1e-5: two histories with one key must agree on score (checked)", "kernel randomness scripted to fixed proposal values; accept and reject both explored"], {"work_items": len(its)})


def replay(path):
    import json

    j = json.load(open(path))
    print(json.dumps(j, indent=1)[:3000])
    os.environ["VERIF_ONLY"] = f"'{j['detail'].get('model', 'batched')}'"
    return main("quick", int(os.environ.get("VERIF_SEED", "0") or 0))
