"""C08  modular_vmap and Vmap are lane-wise maps, for densities and for sampling.

Part A (modular_vmap): 27 functions (deterministic, log-density sites, sampling sites, sites with
sample_shape, scan / cond inside, nested modular_vmap, pytree arguments, event-shaped
parameters, per-lane parameters of differing rank) x every applicable axis specification
(0, 1, -1, None, tuples, pytrees of those) x axis_size given / inferred.
 deterministic / density parts: result == stack_i f(slice_i) == jax.vmap(f) (values, shapes,
 layout).  sampling parts, scripted at the seam: every lane of every site gets its own distinct
 scripted value v_i; the output lane i along the mapped (leading) output axis must be f's value on
 lane i's slice *with lane i's draws*; the parameters the sampler received for lane i must be
 lane i's parameters; exactly one draw per lane and site (never one draw broadcast); in
 monitor mode the real draws of the lanes are pairwise distinct.
Part B (Vmap combinator / repeat): callee programs x in_axes x every GFI method (simulate,
 assess, generate, update, regenerate): lane i of the vectorised result == the callee's method
 on lane i's arguments under the same scripted draws (differential), score / density / weights
 are the per-lane sums, return values the per-lane stacks.
"""

from __future__ import annotations

import itertools
import os
import time

import numpy as np

from mc import harness as H

PROP = "C08"


# ---------------------------------------------------------------- part A


def _functions():
    """name -> (f, arg builder(N) -> args, list of in_axes specs, kind)
    f takes per-lane arguments and, for sampling functions, draws through genjax sites."""
    import jax
    import jax.numpy as jnp
    from genjax import normal, flip, multivariate_normal, modular_vmap, categorical

    def A(*shape, off=0.0):
        n = int(np.prod(shape))
        return (np.arange(n, dtype=np.float32).reshape(shape) * 0.37 + off - 0.8).astype(np.float32)

    F = {}
    F["det_2args"] = (lambda x, y: x * 2.0 + jnp.sin(y), lambda N: (A(N), A(N, off=0.3)), [0, (0, 0), (0, None), (None, 0)], "det")
    F["det_matrix"] = (lambda m, v: m @ v, lambda N: (A(N, 2, 3), A(N, 3, off=0.1)), [0, (0, 0), (0, None)], "det")
    F["det_axis1"] = (lambda col, v: jnp.sum(col) * v, lambda N: (A(2, N), A(N, off=0.5)), [(1, 0), (-1, 0), (1, None)], "det")
    F["det_pytree"] = (lambda d, s: d["a"] * s + jnp.sum(d["b"]), lambda N: ({"a": A(N), "b": A(N, 2, off=0.2)}, np.float32(1.5)), [(0, None), ({"a": 0, "b": 0}, None), ({"a": 0, "b": None}, None)], "det")
    F["logpdf"] = (lambda x, mu: normal.logpdf(x, mu, 1.5), lambda N: (A(N), A(N, off=0.4)), [0, (0, None), (None, 0)], "det")
    F["logpdf_vecvalue"] = (lambda x, mu: jnp.sum(normal.logpdf(x, mu, 0.7)), lambda N: (A(N, 3), A(N, off=0.4)), [0, (0, None)], "det")
    F["logpdf_mvn_axis1"] = (lambda x, mean: multivariate_normal.logpdf(x, mean, jnp.asarray([[1.0, 0.3], [0.3, 2.0]])), lambda N: (A(N, 2), A(2, N, off=0.2)), [(0, 1), (0, -1)], "det")
    F["logpdf_kwargs"] = (lambda x, mu: normal.logpdf(x, loc=mu, scale=2.0), lambda N: (A(N), A(N, off=0.4)), [0, (0, None)], "det")
    F["sample"] = (lambda mu: normal.sample(mu, 1.0), lambda N: (A(N),), [0, (0,)], "sample")
    F["sample_two_sites"] = (lambda mu, s: normal.sample(mu, s) + 10.0 * normal.sample(0.0, 1.0), lambda N: (A(N), np.abs(A(N, off=1.3)) + 0.5), [0, (0, None), (None, 0)], "sample")
    F["sample_shape"] = (lambda mu: normal.sample(mu, 1.0, sample_shape=(3,)), lambda N: (A(N),), [0], "sample")
    F["sample_axis1"] = (lambda mv: normal.sample(mv, 1.0), lambda N: (A(2, N),), [(1,), (-1,)], "sample")
    # a rank-3 stack mapped over its LAST axis: each lane's parameter is a (2, 3) matrix
    F["sample_axis2_matrix"] = (lambda m: normal.sample(m, 0.5), lambda N: (A(2, 3, N),), [(2,), (-1,)], "sample")
    F["logpdf_axis2_matrix"] = (lambda x, m: jnp.sum(normal.logpdf(x, m, 0.5)), lambda N: (A(N, 2, 3), A(2, 3, N, off=0.2)), [(0, 2), (0, -1)], "det")
    F["sample_categorical_axis2"] = (lambda lg: categorical.sample(lg), lambda N: (A(2, 3, N) * 3.0,), [(2,)], "sample-discrete")
    F["sample_mvn"] = (lambda mean: multivariate_normal.sample(mean, jnp.asarray([[1.0, 0.3], [0.3, 2.0]])), lambda N: (A(N, 2),), [0], "sample")
    F["sample_mvn_axis1"] = (lambda mean: multivariate_normal.sample(mean, jnp.asarray([[1.0, 0.3], [0.3, 2.0]])), lambda N: (A(2, N),), [(1,)], "sample")
    # per-lane parameters of differing rank: lane i draws a K-vector from normal(mu_i, sv)
    F["sample_rank_mix"] = (lambda mu, sv: normal.sample(mu, sv), lambda N: (A(N), np.asarray([0.5, 1.0, 2.0, 0.7], np.float32)[: N + 1]), [(0, None)], "sample")
    F["sample_rank_mix_square"] = (lambda mu, sv: normal.sample(mu, sv), lambda N: (A(N), np.asarray([0.5, 1.0, 2.0, 0.7], np.float32)[:N]), [(0, None)], "sample")
    F["sample_unmapped_site"] = (lambda x: x + normal.sample(0.0, 1.0), lambda N: (A(N),), [0], "sample")

    def scan_in(mu):
        def body(c, _):
            z = normal.sample(c, 1.0)
            return 0.5 * z + mu, z

        return jax.lax.scan(body, mu, None, length=2)[1]

    F["scan_inside"] = (scan_in, lambda N: (A(N),), [0], "sample")

    # sites two control-flow levels deep (no site directly in the outer body)
    def scan_cond_in(mu):
        def body(c, i):
            z = jax.lax.cond(i % 2 == 0, lambda: normal.sample(c, 1.0), lambda: normal.sample(c, 2.0) + 1.0)
            return 0.5 * z + mu, z

        return jax.lax.scan(body, mu, jnp.arange(2))[1]

    F["scan_cond_inside"] = (scan_cond_in, lambda N: (A(N),), [0], "sample")

    def scan_scan_in(mu):
        def inner(c, _):
            z = normal.sample(c, 1.0)
            return 0.5 * z, z

        def outer(c, _):
            c2, zs = jax.lax.scan(inner, c + mu, None, length=2)
            return c2, zs

        return jax.lax.scan(outer, mu, None, length=2)[1]

    F["scan_scan_inside"] = (scan_scan_in, lambda N: (A(N),), [0], "sample")

    def scan_cond_noise(mu):
        # lane-independent parameters two levels deep: one draw per lane all the same
        def body(c, i):
            e = jax.lax.cond(i >= 0, lambda: normal.sample(0.0, 1.0), lambda: normal.sample(0.0, 1.0) * 1.0)
            return c + e, e

        return mu + jax.lax.scan(body, 0.0, jnp.arange(2))[1]

    F["scan_cond_noise"] = (scan_cond_noise, lambda N: (A(N),), [0], "sample")

    def cond_in(mu):
        return jax.lax.cond(mu > 0.0, lambda: normal.sample(mu, 1.0), lambda: normal.sample(mu, 3.0) * 2.0)

    F["cond_inside"] = (cond_in, lambda N: (A(N),), [0], "sample")

    def nested(mus):
        return modular_vmap(lambda m: normal.sample(m, 1.0) * 2.0, in_axes=(0,))(mus)

    F["nested_modular_vmap"] = (nested, lambda N: (A(N, 2),), [0], "sample")
    F["axis_size_only"] = (lambda: normal.sample(0.5, 1.0) + normal.sample(0.0, 2.0), lambda N: (), [()], "sample")
    F["flip_site"] = (lambda p: jnp.where(flip.sample(p), 1.0, -1.0), lambda N: (np.clip(np.abs(A(N)) * 0.5, 0.05, 0.95).astype(np.float32),), [0], "sample-discrete")
    return F


KEEP_UNMAPPED = {"det_pytree", "logpdf_axis2_matrix", "sample_rank_mix", "sample_rank_mix_square", "logpdf_mvn_axis1", "det_axis1"}


def _first_axis(a):
    return {k: 0 for k in a} if isinstance(a, dict) else 0


def _slice(args, in_axes, i):
    import jax

    def sl(a, ax):
        if ax is None:
            return a
        if isinstance(a, dict):
            axd = ax if isinstance(ax, dict) else {k: ax for k in a}
            return {k: sl(v, axd[k]) for k, v in a.items()}
        return np.take(np.asarray(a), i, axis=ax)

    if isinstance(in_axes, int) or in_axes is None:
        in_axes = (in_axes,) * len(args)
    return tuple(sl(a, ax) for a, ax in zip(args, in_axes))


def _run_lane_scripted(f, lane_args, draws):
    """f on one lane's slice, its sites answered (in program order) with `draws`."""
    import jax
    import jax.numpy as jnp
    from genjax import seed as gseed
    from mc import env
    from mc.tree import _undecided, _with

    key = jax.random.key(5)
    sf = gseed(f)
    D = {}
    ja = jax.tree_util.tree_map(jnp.asarray, lane_args)
    pool = list(draws)
    out = None
    for _ in range(40):
        out, evs = env.run_recorded(sf, key, *ja, mode="script", decisions=D)
        nxt = _undecided(evs)
        if nxt is None:
            return out, evs
        ev, lane = nxt
        # find a recorded vectorised draw with the same sampler name and parameters
        hit = None
        for j, (name, params, val, site) in enumerate(pool):
            if name == ev.name and len(params) == len(ev.args) and all(np.shape(a) == np.shape(b) and H.close(a, b, rtol=1e-5, atol=1e-6) for a, b in zip(params, [np.asarray(x) for x in ev.args])):
                hit = j
                break
        if hit is None:
            raise LookupError(f"lane draws {ev.name}{[np.asarray(a).tolist() for a in ev.args]}; vectorised run offered {[(n, [np.asarray(q).tolist() for q in p]) for n, p, _v, _s in pool]}")
        v, site = pool[hit][2], pool[hit][3]
        pool = [e for e in pool if e[3] != site]  # one draw per site and lane
        D[ev.key] = np.asarray(v)
    raise RuntimeError("lane run did not terminate")


def work_mvmap(item, tier, seed):
    import jax
    import jax.numpy as jnp
    from genjax import modular_vmap, seed as gseed
    from genjax.core import handler_stack
    from mc import env

    env.install()
    res = H.Result()
    fname = item[1]
    f, mkargs, axes_list, kind = _functions()[fname]
    key = jax.random.key(seed * 3 + 1)
    for N in (2, 3):
        for in_axes in axes_list:
            args = mkargs(N)
            # an argument that is not mapped is passed with its per-lane shape (lane 0's slice)
            ax_t = (in_axes,) * len(args) if (isinstance(in_axes, int) or in_axes is None) else tuple(in_axes)
            args = tuple(a if ax is not None or fname in KEEP_UNMAPPED else _slice((a,), (_first_axis(a),), 0)[0] for a, ax in zip(args, ax_t))
            jargs = jax.tree_util.tree_map(jnp.asarray, args)
            for given in (False, True):
                if not args and not given:
                    continue
                det = {"function": fname, "N": N, "in_axes": str(in_axes), "axis_size_given": given}
                sig = f"{fname}"
                res.transitions += 1
                try:
                    mv = modular_vmap(f, in_axes=in_axes, axis_size=N if given else None)
                    if kind == "det":
                        out = np.asarray(mv(*jargs))
                        res.evaluations += 1
                    else:
                        out, evs = env.run_recorded(gseed(mv), key, *jargs, mode="monitor")
                        res.evaluations += 1
                except Exception as ex:
                    handler_stack.clear()
                    res.violate(PROP, f"modular_vmap-raises:{sig}", error=f"{type(ex).__name__}: {str(ex)[:300]}", **det)
                    res.states += 1
                    continue
                res.states += 1
                res.validated += 1
                res.case(fname, N, str(in_axes), given)
                if kind == "det":
                    lanes = [np.asarray(f(*jax.tree_util.tree_map(jnp.asarray, _slice(args, in_axes, i)))) for i in range(N)]
                    want = np.stack(lanes)
                    jv = np.asarray(jax.vmap(f, in_axes=in_axes, axis_size=N if given else None)(*jargs))
                    if out.shape != want.shape or not H.close(out, want, rtol=1e-5, atol=1e-6):
                        res.violate(PROP, f"lanewise-values:{sig}", modular_vmap=out, stacked_lanes=want, **det)
                    if out.shape != jv.shape or not H.close(out, jv, rtol=1e-5, atol=1e-6):
                        res.violate(PROP, f"differs-from-jax.vmap:{sig}", modular_vmap=out, jax_vmap=jv, **det)
                    if not res.samples:
                        res.add_sample(dict(det, output_shape=list(out.shape)))
                    continue
                # ---------------- sampling functions
                out = np.asarray(out)
                # (1) real draws pairwise distinct across lanes, per site
                for ev in evs:
                    v, lax_ = _lane_first(ev, N)
                    if v.dtype.kind == "f":
                        rows = v.reshape(v.shape[0], -1) if v.ndim else v.reshape(1, 1)
                        if lax_ is None:
                            continue
                        if len({r.tobytes() for r in rows}) != N:
                            res.violate(PROP, f"lanes-share-a-draw:{sig}", site=ev.brief(), **det)
                # (2) scripted: distinct value per lane and site element; lane i == f(slice_i; draws_i)
                D = {}
                for si, ev in enumerate(evs):
                    v = np.asarray(ev.value)
                    if v.dtype.kind == "f":
                        sv = (np.arange(v.size, dtype=np.float32).reshape(v.shape) * 0.173 + 0.011 * si + 0.05).astype(v.dtype)
                    else:
                        sv = (np.arange(v.size).reshape(v.shape) % 2).astype(v.dtype)
                    D[ev.key] = sv
                try:
                    out_s, evs_s = env.run_recorded(gseed(mv), key, *jargs, mode="script", decisions=D)
                    res.evaluations += 1
                    res.transitions += 1
                except Exception as ex:
                    handler_stack.clear()
                    res.violate(PROP, f"modular_vmap-raises:{sig}", error=f"{type(ex).__name__}: {str(ex)[:300]}", scripted=True, **det)
                    continue
                out_s = np.asarray(out_s)
                if out_s.shape[:1] != (N,):
                    res.violate(PROP, f"output-not-batched-along-axis0:{sig}", shape=list(out_s.shape), **det)
                    continue
                ok = True
                for i in range(N):
                    la = _slice(args, in_axes, i)
                    # draws offered to lane i: lane i of every vectorised site (with lane i's params)
                    pool = []
                    for ev in evs_s:
                        v, lax_ = _lane_first(ev, N)
                        if lax_ is None:
                            # a site that was not vectorised at all: one draw for every lane
                            res.violate(PROP, f"site-not-vectorised:{sig}", site=ev.brief(), **det)
                            ok = False
                            break
                        # each parameter is either lane i's slice (mapped) or the whole array (unmapped):
                        # both candidates are offered, the lane run must match one of them
                        cands = []
                        for a in ev.args:
                            a = np.asarray(a)
                            cands.append([a] + ([a[i]] if (a.ndim and a.shape[0] == N) else []))
                        for combo in itertools.product(*cands):
                            pool.append((ev.name, list(combo), v[i], id(ev)))
                    if not ok:
                        break
                    try:
                        lane_out, lane_evs = _run_lane_scripted(f, la, pool)
                        res.evaluations += 1
                    except LookupError as ex:
                        res.violate(PROP, f"lane-parameters:{sig}", lane=i, error=str(ex)[:500], **det)
                        ok = False
                        break
                    lane_out = np.asarray(lane_out)
                    if lane_out.shape != out_s[i].shape or not H.close(out_s[i], lane_out, rtol=1e-5, atol=1e-6):
                        res.violate(PROP, f"lane-result:{sig}", lane=i, vectorised_lane=out_s[i], single_lane=lane_out, **det)
                        ok = False
                        break
                if not res.samples:
                    res.add_sample(dict(det, sites=[e.brief() for e in evs_s][:3], output_shape=list(out_s.shape)))
    return res


def _lane_first(ev, N):
    """The event's value with the lane axis moved to the front.  With mapped parameters the
    site's own sample_shape dimensions precede the lane axis; with axis_size only the lane axis
    was prepended."""
    v = np.asarray(ev.value)
    mapped = any(np.ndim(a) and np.shape(a)[0] == N for a in ev.args)
    ax = len(ev.sample_shape) if mapped else 0
    if v.ndim > ax and v.shape[ax] == N:
        return np.moveaxis(v, ax, 0), ax
    return v, None


def _is_batched_param(a, v):
    """Heuristic-free rule: a parameter is per-lane iff its leading axis is the lane axis AND
    removing it leaves a shape that broadcasts against one lane's value."""
    try:
        np.broadcast_shapes(a.shape[1:], v.shape[1:])
        return True
    except ValueError:
        return False


# ---------------------------------------------------------------- part B


def work_vmap_gfi(item, tier, seed):
    import jax
    import jax.numpy as jnp
    from genjax import seed as gseed, sel
    from genjax.core import handler_stack
    from mc import env, gfi
    from mc import ref as R
    from mc import lang as L
    from mc import family as F

    env.install()
    res = H.Result()
    _k, cname, variant = item
    callee_prog = {"chain": F.chain, "two": F.two, "disc": F.disc, "vecsite": F.vecsite}[cname]
    callee = L.compile_prog(callee_prog)
    N = 2
    if variant == "repeat":
        gf = callee.repeat(N)
        args = (np.float32(0.3),) if cname != "two" else (np.float32(0.3), np.float32(-0.4))
        in_axes = (None,) * len(args)
    elif variant == "axes0":
        gf = callee.vmap(in_axes=0)
        args = (F.A(0.1, 0.7),) if cname != "two" else (F.A(0.1, 0.7), F.A(0.5, -0.4))
        in_axes = (0,) * len(args)
    elif variant == "tuple_axes":
        if cname == "two":
            gf = callee.vmap(in_axes=(None, 0))
            args = (np.float32(0.3), F.A(0.5, -0.4))
            in_axes = (None, 0)
        else:
            gf = callee.vmap(in_axes=(0,))
            args = (F.A(0.1, 0.7),)
            in_axes = (0,)
    else:
        raise ValueError(variant)
    jargs = tuple(jnp.asarray(a) for a in args)
    key = jax.random.key(seed + 77)
    det0 = {"callee": cname, "variant": variant}
    sig = f"{cname}:{variant}"
    paths = R.leaf_paths(callee_prog)

    def lane_args(i):
        return tuple(np.asarray(a) if ax is None else np.asarray(a)[i] for a, ax in zip(args, in_axes))

    def check_trace(tag, vtr, det):
        """lane i of the vectorised trace is a coherent trace of the callee on lane i's args."""
        ch = R.to_numpy(vtr.get_choices())
        rv = R.to_numpy(vtr.get_retval())
        total = 0.0
        for i in range(N):
            ci = R.tree_index(ch, i)
            try:
                ro = R.run(callee_prog, lane_args(i), ci)
            except Exception as ex:
                res.violate(PROP, f"{tag}-lane-choices-malformed:{sig}", lane=i, error=str(ex)[:200], **det)
                return None
            total += ro.logp
            if not gfi.tree_close(R.tree_index(rv, i), ro.retval):
                res.violate(PROP, f"{tag}-lane-retval:{sig}", lane=i, retval=R.tree_index(rv, i), reference=ro.retval, **det)
            sc = np.asarray(vtr._score) if hasattr(vtr, "_score") else None
            if sc is not None and np.shape(sc) == (N,) and not H.close(sc[i], -ro.logp):
                res.violate(PROP, f"{tag}-lane-score:{sig}", lane=i, score=sc[i], reference=-ro.logp, **det)
        if not H.close(float(np.asarray(vtr.get_score())), -total):
            res.violate(PROP, f"{tag}-score-not-the-lane-sum:{sig}", score=float(np.asarray(vtr.get_score())), reference=-total, **det)
        return total

    # ---- simulate: all corner scripts (first / last / alternating menu entry)
    try:
        trs = gfi.corner_traces(gf, key, jargs, (0, -1, "alt"), res)
    except Exception as ex:
        handler_stack.clear()
        res.violate(PROP, f"simulate-raises:{sig}", error=f"{type(ex).__name__}: {str(ex)[:300]}", **det0)
        return res
    for ti, tr in enumerate(trs):
        res.states += 1
        res.validated += 1
        res.transitions += 1
        ch = R.to_numpy(tr.get_choices())
        det = dict(det0, choices=R.flatten(ch))
        total = check_trace("simulate", tr, det)
        if total is None:
            continue
        # ---- assess
        try:
            lp, rv = gf.assess(tr.get_choices(), *jargs)
            res.evaluations += 1
            res.transitions += 1
            if np.shape(lp) != () or not H.close(float(np.asarray(lp)), total):
                res.violate(PROP, f"assess-not-the-lane-sum:{sig}", assess=np.asarray(lp), reference=total, **det)
            if not gfi.tree_close(R.to_numpy(rv), R.to_numpy(tr.get_retval())):
                res.violate(PROP, f"assess-retval:{sig}", **det)
        except Exception as ex:
            handler_stack.clear()
            res.violate(PROP, f"assess-raises:{sig}", error=f"{type(ex).__name__}: {str(ex)[:300]}", **det)
        # ---- generate with the last address constrained (per-lane values), rest scripted
        p = paths[-1]
        cons = R.unflatten({p: R.flatten(ch)[p]})
        try:
            jc = jax.tree_util.tree_map(jnp.asarray, cons)
            gtrs = []
            from mc.tree import _undecided, _with

            gen = gseed(gf.generate)
            D = {}
            for _ in range(60):
                (gtr, gw), evs = env.run_recorded(gen, key, jc, *jargs, mode="script", decisions=D)
                nxt = _undecided(evs)
                if nxt is None:
                    break
                ev, lane = nxt
                m = gfi.std_menu(ev, lane)
                D = _with(D, ev.key, lane, m[(lane + ti) % len(m)][0])
            res.evaluations += 1
            res.transitions += 1
            gdet = dict(det0, constraint=[list(p)], choices=R.flatten(R.to_numpy(gtr.get_choices())))
            if check_trace("generate", gtr, gdet) is not None:
                gch = R.to_numpy(gtr.get_choices())
                want_w = 0.0
                for i in range(N):
                    ro = R.run(callee_prog, lane_args(i), R.tree_index(gch, i))
                    want_w += R.path_logp(ro)[p]
                if not H.close(float(np.asarray(gw)), want_w):
                    res.violate(PROP, f"generate-weight-not-the-lane-sum:{sig}", weight=float(np.asarray(gw)), reference=want_w, **gdet)
                if not H.bits_equal(R.flatten(gch)[p], R.flatten(ch)[p]):
                    res.violate(PROP, f"generate-constraint-lanes-permuted:{sig}", **gdet)
        except Exception as ex:
            handler_stack.clear()
            res.violate(PROP, f"generate-raises:{sig}", error=f"{type(ex).__name__}: {str(ex)[:300]}", **det)
        # ---- update: first address takes the other corner's values (lane-wise)
        other = R.to_numpy(trs[(ti + 1) % len(trs)].get_choices())
        p0 = paths[0]
        try:
            ucons = jax.tree_util.tree_map(jnp.asarray, R.unflatten({p0: R.flatten(other)[p0]}))
            utr, uw, ud = gf.update(tr, ucons, *jargs)
            res.evaluations += 1
            res.transitions += 1
            udet = dict(det0, update_address=list(p0), choices=R.flatten(R.to_numpy(utr.get_choices())))
            new_total = check_trace("update", utr, udet)
            if new_total is not None and not H.close(float(np.asarray(uw)), new_total - total):
                res.violate(PROP, f"update-weight-not-the-lane-sum:{sig}", weight=float(np.asarray(uw)), reference=new_total - total, **udet)
        except Exception as ex:
            handler_stack.clear()
            res.violate(PROP, f"update-raises:{sig}", error=f"{type(ex).__name__}: {str(ex)[:300]}", **det)
        # ---- regenerate the first address, scripted per lane
        try:
            s = sel(p0[0]) if len(p0) == 1 else sel(tuple(p0))
            regen = gseed(lambda t: gf.regenerate(t, s, *jargs))
            from mc.tree import _undecided, _with

            D = {}
            for _ in range(60):
                (rtr, rw, rd), evs = env.run_recorded(regen, key, tr, mode="script", decisions=D)
                nxt = _undecided(evs)
                if nxt is None:
                    break
                ev, lane = nxt
                m = gfi.std_menu(ev, lane)
                D = _with(D, ev.key, lane, m[(lane + 1 + ti) % len(m)][0])
            res.evaluations += 1
            res.transitions += 1
            rdet = dict(det0, regenerate_address=list(p0), choices=R.flatten(R.to_numpy(rtr.get_choices())))
            new_total = check_trace("regenerate", rtr, rdet)
            if new_total is not None:
                rch = R.to_numpy(rtr.get_choices())
                want = 0.0
                for i in range(N):
                    ro_new = R.run(callee_prog, lane_args(i), R.tree_index(rch, i))
                    ro_old = R.run(callee_prog, lane_args(i), R.tree_index(ch, i))
                    want += (ro_new.logp - ro_old.logp) - (R.path_logp(ro_new)[p0] - R.path_logp(ro_old)[p0])
                if not H.close(float(np.asarray(rw)), want):
                    res.violate(PROP, f"regenerate-weight-not-the-lane-sum:{sig}", weight=float(np.asarray(rw)), reference=want, **rdet)
                for q in paths:
                    if q != p0 and not H.bits_equal(R.flatten(rch)[q], R.flatten(ch)[q]):
                        res.violate(PROP, f"regenerate-touched-unselected-lane-values:{sig}", address=list(q), **rdet)
        except Exception as ex:
            handler_stack.clear()
            res.violate(PROP, f"regenerate-raises:{sig}", error=f"{type(ex).__name__}: {str(ex)[:300]}", **det)
        res.case(cname, variant, ti)
        if not res.samples:
            res.add_sample(dict(det0, choices=R.flatten(ch), score=float(np.asarray(tr.get_score()))))
    return res


def work(item, tier, seed):
    if item[0] == "mvmap":
        return work_mvmap(item, tier, seed)
    return work_vmap_gfi(item, tier, seed)


def items(tier):
    its = [("mvmap", n) for n in (
        "det_2args", "det_matrix", "det_axis1", "det_pytree", "logpdf", "logpdf_vecvalue", "logpdf_mvn_axis1", "logpdf_kwargs",
        "sample", "sample_two_sites", "sample_shape", "sample_axis1", "sample_axis2_matrix", "logpdf_axis2_matrix", "sample_categorical_axis2", "sample_mvn", "sample_mvn_axis1", "sample_rank_mix", "sample_rank_mix_square", "sample_unmapped_site",
        "scan_inside", "scan_cond_inside", "scan_scan_inside", "scan_cond_noise", "cond_inside", "nested_modular_vmap", "axis_size_only", "flip_site",
    )]
    for c in ("chain", "two", "disc", "vecsite"):
        for v in ("repeat", "axes0", "tuple_axes"):
            its.append(("gfi", c, v))
    return its


def main(tier, seed):
    t0 = time.time()
    its = items(tier)
    only = os.environ.get("VERIF_ONLY")
    if only:
        its = [it for it in its if only in str(it)]
    res, errors = H.fan_out("checks.c08", "work", its, tier, seed)
    rule = (
        "A: 27 functions x N in {2,3} x every listed in_axes spec x axis_size given/inferred (Cartesian); sampling functions run monitored and with "
        "every lane of every site scripted to a distinct value, each lane re-run alone under its own draws; B: 4 callees x {repeat, in_axes=0, tuple in_axes} x "
        "3 scripted corner traces x {simulate, assess, generate, update, regenerate}; states = (function, axes, N) cases / vectorised traces, transitions = real calls"
    )
    return H.finish(PROP, tier, seed, "model_checking", res, errors, t0, rule, ["N in {2,3}; one argument value set per shape"], {"work_items": len(its)})


def replay(path):
    import json

    j = json.load(open(path))
    print(json.dumps(j, indent=1)[:3000])
    d = j["detail"]
    os.environ["VERIF_ONLY"] = f"'{d.get('function') or d.get('callee')}'"
    return main("quick", int(os.environ.get("VERIF_SEED", "0") or 0))
