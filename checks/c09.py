"""C09  mh / mala / hmc are reversible with respect to the posterior.

One kernel step under seed with *scripted internal randomness*.  For every target trace x
selection x kernel configuration: the full choice tree of the proposal randomness (mh: every
outcome of every regenerated site; mala / hmc: per-coordinate noise / momentum from
{-1.1, 0.3, 1.7}), the accept uniform held at ~0 so that the leaf shows the proposed state;
then the acceptance threshold actually applied is located by bisection on the scripted
uniform (the behaviour is piecewise constant in u) and compared with the reference
Metropolis-Hastings probability.
Oracle: proposal draws are exactly the conditional priors of the selected sites (mh) / one
standard-normal draw per selected *coordinate* (mala, hmc); proposed state == reference
Langevin step / float64 leapfrog map for the implied noise; alpha_impl == alpha_ref;
u above the threshold returns the input trace bit for bit; unselected choices untouched;
accepted trace coherent.  Discrete targets: the transition matrix assembled from the observed
decisions satisfies detailed balance and pi P = pi over the whole state space.
"""

from __future__ import annotations

import itertools
import os
import time

import numpy as np

from mc import harness as H

PROP = "C09"
NOISE = (-1.1, 0.3, 1.7)


def _targets():
    """name -> (Prog, args, observed paths, [(selection expr, kernels)])"""
    from mc.lang import Prog, Site, CondCall
    from mc import family as F

    brm_t = Prog("brm_t", ("a",), (Site("v", "normal", ("1.0", "0.6")),), "v")
    brm_f = Prog("brm_f", ("a",), (Site("v", "normal", ("-1.0", "1.2")),), "v")
    mixture = Prog("mixture", ("a",), (Site("z", "flip", ("0.35",)), CondCall("c", brm_t, brm_f, "z", ("a",))), "c")
    # a hard constraint: the observation has bounded support around the latent, so proposals can
    # land where the target density is 0 (they must be rejected, never NaN-accepted)
    bounded = Prog("bounded", ("a",), (Site("x", "normal", ("a", "1.0")), Site("y", "uniform", ("x - 1.0", "x + 1.0"))), "y")
    f32 = np.float32
    T = {
        "bounded": (bounded, (f32(0.3),), [("y",)], [(("str", "x"), ("mh", "mala"))]),
        "disc": (F.disc, (f32(0.3),), [("c",)], [(("str", "x"), ("mh",)), (("str", "y"), ("mh",)), (("or", ("str", "x"), ("str", "y")), ("mh",))]),
        "chain": (F.chain, (f32(0.3),), [("y",)], [(("str", "x"), ("mh", "mala", "hmc"))]),
        "chain_free": (F.chain, (f32(-1.2),), [], [(("all",), ("mala", "hmc")), (("str", "y"), ("mh", "mala"))]),
        "fanin": (F.fanin, (f32(0.3),), [("y",)], [(("or", ("str", "z"), ("str", "w")), ("mh",)), (("str", "w"), ("mh",))]),
        "vecparam": (F.vecparam, (F.A(0.1, 0.7),), [("y",)], [(("str", "x"), ("mh", "mala", "hmc"))]),
        "vecscale": (F.vecscale, (f32(0.3),), [("y",)], [(("str", "x"), ("mh", "mala", "hmc"))]),
        "vecsite": (F.vecsite, (f32(0.3),), [("y",)], [(("str", "m"), ("mh", "mala", "hmc"))]),
        "vmap_indep": (F.vmap_indep, (F.A(0.1, 0.7),), [], [(("tup", ("v", "x")), ("mh",)), (("tup", ("v", "y")), ("mh", "mala", "hmc"))]),
        "scan_c": (F.scan_c, (f32(0.3), F.A(0.5, -0.4)), [("y",)], [(("tup", ("s", "z")), ("mh", "mala", "hmc"))]),
        "cond_c": (F.cond_c, (f32(0.3), np.bool_(True)), [("y",)], [(("tup", ("c", "v")), ("mh", "mala", "hmc"))]),
        "cond_c_false": (F.cond_c, (f32(0.3), np.bool_(False)), [("y",)], [(("dict", (("c", ("str", "v")),)), ("mh", "mala"))]),
        "mixture": (mixture, (f32(0.0),), [("c", "v")], [(("str", "z"), ("mh",))]),
        # a latent inside a sub-call of a Cond branch (shared address at depth 2), condition True
        "cond_nested_c": (F.cond_nested_c, (f32(0.3), np.bool_(True)), [("y",)], [(("tup", ("c", "s", "v")), ("mh", "mala", "hmc"))]),
    }
    T.update(_generated_targets())
    return T


GEN_CONT = ("chain", "indep", "vecsite", "expo", "user", "kw")
GEN_DISC = ("disc", "fanin")
_GT = {}


def _generated_targets():
    """Thorough tiers: kernels on the systematically generated compositions (mc/generated.py): every single
    leaf address and every top-level address as the selection, nothing observed.  Continuous bodies under
    every wrapper (mh, mala, hmc); discrete bodies under call / vmap / repeat / scan (mh, whole transition
    matrix).  Names start with "g:"."""
    if _GT or os.environ.get("VERIF_C09_GENERATED") != "1":
        # Opt-in only: a spot run showed false alarms of this check on generated targets that contain a
        # uniform *site* (body `bounded`: the site's draws are mistaken for the accept/reject uniform), and a
        # full sweep was never completed (DESIGN 10.5) - unvalidated targets are not part of a registered command.
        return _GT
    from mc import generated as G
    from mc import ref as R

    for name, (prog, argsl, nl) in G.generated().items():
        inner = name.replace("]", "").split("[")
        body, wraps = inner[-1], inner[:-1]
        paths = R.leaf_paths(prog)
        if len(wraps) > 1 or len(paths) > 6 or nl > 1500:
            continue  # depth-1 compositions only: a depth-2 sweep of this check takes hours
        if body in GEN_CONT:
            kerns = ("mh", "mala", "hmc")
        elif body in GEN_DISC and "cond" not in wraps and nl <= 150:
            kerns = ("mh",)
        else:
            continue
        sels = [(("tup", tuple(p_)), kerns) for p_ in paths]
        tops = sorted({p_[0] for p_ in paths if len(p_) > 1})
        sels += [(("str", t), kerns) for t in tops]
        for vi, args in enumerate(argsl[: 2 if "cond" in wraps else 1]):
            _GT[f"g:{name}" + ("" if vi == 0 else "#alt")] = (prog, args, [], sels)
    return _GT


def _coords(flat, sel_paths):
    """Flatten the selected leaves to one float64 vector (+ how to put it back)."""
    parts = []
    meta = []
    for p in sel_paths:
        a = np.asarray(flat[p], np.float64)
        parts.append(a.reshape(-1))
        meta.append((p, a.shape))
    return (np.concatenate(parts) if parts else np.zeros(0)), meta


def _put(flat, meta, vec, dtype=np.float64):
    out = dict(flat)
    i = 0
    for p, shp in meta:
        n = int(np.prod(shp, dtype=np.int64)) if shp else 1
        out[p] = np.asarray(vec[i : i + n], dtype).reshape(shp)
        i += n
    return out


def _logp_fn(prog, args, flat, meta):
    from mc import ref as R

    def f(vec):
        return R.run(prog, args, R.unflatten(_put(flat, meta, vec))).logp

    return f


def _grad(f, x, h=1e-5):
    g = np.zeros_like(x)
    for i in range(len(x)):
        e = np.zeros_like(x)
        e[i] = h
        g[i] = (f(x + e) - f(x - e)) / (2 * h)
    return g


def _norm_logpdf(x, mu, s):
    return float(np.sum(-0.5 * ((x - mu) / s) ** 2 - np.log(s) - 0.5 * np.log(2 * np.pi)))


def work(item, tier, seed):
    import jax
    import jax.numpy as jnp
    from genjax import seed as gseed
    from genjax.core import handler_stack
    from genjax.inference import mh, mala, hmc
    from mc import env, tree, gfi
    from mc import ref as R
    from mc import lang as L
    from mc import selref as S

    env.install()
    res = H.Result()
    tname, si, kern, cfg = item
    prog, args, observed, sels = _targets()[tname]
    e, _ks = sels[si]
    fn = L.compile_prog(prog)
    key = jax.random.key(seed * 49979687 + 23)
    jargs = tuple(jnp.asarray(a) for a in args)
    paths = R.leaf_paths(prog)
    sel = S.build(e)
    den = [p for p in paths if S.den(e, p)]
    sig = f"{tname}:{kern}:{S.show(e)}"
    # ---- starting states: corner traces (real hidden draws), 2 per target
    try:
        starts = gfi.corner_traces(fn, key, jargs, (0, -1, "alt") if tier == "thorough" else (-1, "alt"), res)
    except Exception as ex:
        handler_stack.clear()
        res.violate(PROP, f"simulate-raises:{tname}", error=str(ex)[:300])
        return res
    if observed and tname != "cond_nested_c":
        # observed addresses are constrained through generate (so a Cond holds the observation
        # in both branches); the latent values are those of the corner traces
        starts2 = []
        for t in starts:
            ch = jax.tree_util.tree_map(jnp.asarray, gfi.np_choices(t))
            tr_c, _w = fn.generate(ch, *jargs)
            res.evaluations += 1
            starts2.append(tr_c)
        starts = starts2
    if kern == "mh":
        kfun = lambda t: mh(t, sel)
        kdesc = {"kernel": "mh"}
    elif kern == "mala":
        tau = cfg
        kfun = lambda t: mala(t, sel, tau)
        kdesc = {"kernel": "mala", "step_size": tau}
    else:
        tau, Lsteps = cfg
        kfun = lambda t: hmc(t, sel, tau, Lsteps)
        kdesc = {"kernel": "hmc", "step_size": tau, "n_steps": Lsteps}
    try:
        step = jax.jit(gseed(kfun))
        env.run_recorded(step, key, starts[0])
    except Exception as ex:
        handler_stack.clear()
        res.violate(PROP, f"kernel-raises:{sig}", target=tname, selection=S.show(e), error=f"{type(ex).__name__}: {str(ex)[:400]}", **kdesc)
        res.states += 1
        res.transitions += 1
        return res
    # discrete targets: assemble the transition matrix over the whole state space
    all_discrete = all(R.DISTS[s.dist].discrete for s in _sites(prog))
    if kern == "mh" and all_discrete:
        starts = _all_states(res, prog, args, fn, jargs, observed, paths)
    P = {}
    logpi = {}
    for x_tr in starts:
        x_ch = gfi.np_choices(x_tr)
        x_flat = R.flatten(x_ch)
        x_ref = R.run(prog, args, x_ch)
        x_plp = R.path_logp(x_ref)
        xk = gfi.outcome_key(x_flat)
        logpi[xk] = x_ref.logp
        det0 = dict(target=tname, selection=S.show(e), start=x_flat, args=args, **kdesc)

        def run(D, x_tr=x_tr):
            out, evs = env.run_recorded(step, key, x_tr, mode="script", decisions=D)
            res.evaluations += 1
            return out, evs

        def menu(ev, lane, ctx):
            if ev.name == "Uniform" and kern in ("mala", "hmc") or (ev.name == "Uniform" and H.close(ev.args[0], 0.0, atol=0, rtol=0) and H.close(ev.args[1], 1.0, atol=0, rtol=0)):
                return [(np.float32(1e-30), 1.0, "u~0 (accept if alpha>0)")]
            if kern in ("mala", "hmc"):
                if ev.name != "Normal":
                    raise tree.HarnessError(f"unexpected sampler {ev.name} inside {kern}")
                return [(np.float32(z), 1.0 / len(NOISE), str(z)) for z in NOISE]
            return gfi.std_menu(ev, lane, ctx)

        def on_leaf(leaf, x_tr=x_tr, x_flat=x_flat, x_ref=x_ref, x_plp=x_plp, xk=xk, det0=det0):
            res.states += 1
            res.validated += 1
            y_tr = leaf.out
            det = dict(det0, decisions=tree.D_json(leaf.D))
            uni = [ev for ev in leaf.events if ev.name == "Uniform"]
            prop_events = [ev for ev in leaf.events if ev.name != "Uniform"]
            if len(uni) != 1 or uni[0].lanes() != 1:
                res.violate(PROP, f"accept-uniform-count:{sig}", uniforms=[u.brief() for u in uni][:3], **det)
                return
            ukey = uni[0].key
            D0 = {k: v for k, v in leaf.D.items() if k != ukey}
            # ---- threshold actually applied: partition (0,1) by behaviour
            pieces = tree.partition_unit_interval(lambda D: run(D), D0, ukey, 0, _St(res), grid=9 if tier == "quick" else 17, tol=1e-6)
            res.transitions += 1
            # behaviour at u~0 and at u~1
            out_lo, _ = run(tree._with(D0, ukey, 0, np.float32(1e-30)))
            out_hi, _ = run(tree._with(D0, ukey, 0, np.float32(1 - 1e-7)))
            def same_trace(a, b):
                # choices / score / retval bit for bit (python-scalar argument leaves of an
                # eagerly built trace have no fixed dtype: compared by value)
                return (
                    gfi.tree_bits_equal(R.to_numpy(a.get_choices()), R.to_numpy(b.get_choices()))
                    and H.bits_equal(np.asarray(a.get_score(), np.float32), np.asarray(b.get_score(), np.float32))
                    and gfi.tree_bits_equal(R.to_numpy(a.get_retval()), R.to_numpy(b.get_retval()))
                    and gfi.tree_close(R.to_numpy(a.get_args()), R.to_numpy(b.get_args()), rtol=0, atol=0)
                )

            hi_is_old = same_trace(out_hi, x_tr)
            if len(pieces) > 2:
                res.violate(PROP, f"accept-rule-not-a-threshold:{sig}", pieces=[(a, b) for a, b, _ in pieces], **det)
                return
            y_ch = gfi.np_choices(out_lo)
            y_flat = R.flatten(y_ch)
            changed = not gfi.tree_bits_equal(y_ch, R.to_numpy(x_tr.get_choices()))
            if len(pieces) == 2:
                alpha_impl = pieces[0][1]
                if not hi_is_old:
                    res.violate(PROP, f"rejected-move-changes-trace:{sig}", **det)
            else:
                # no breakpoint inside (1e-6, 1-1e-6)
                alpha_impl = None
                if not hi_is_old:
                    alpha_impl = 1.0  # accepted even at u ~ 1
                elif changed:
                    alpha_impl = 0.0  # accepted at u = 1e-30 but rejected from 1e-6 on: 0 < alpha < 1e-6
            # a proposal that is rejected even at u = 1e-30 (alpha == 0: the proposed state has density
            # 0) never shows in the output: rebuild it from the proposal draws themselves
            if kern == "mh" and not changed and len(pieces) == 1:
                prop_vals = []
                for ev in prop_events:
                    v = np.asarray(ev.value)
                    prop_vals.append(v)
                sel_sites = [p for p in paths if p in den]
                if len(prop_vals) == len(sel_sites) and all(np.shape(v) == np.shape(x_flat[p]) for v, p in zip(prop_vals, sel_sites)):
                    cand = dict(x_flat)
                    for v, p in zip(prop_vals, sel_sites):
                        cand[p] = v.astype(np.asarray(x_flat[p]).dtype)
                    if not gfi.tree_bits_equal(R.unflatten(cand), R.unflatten(x_flat)):
                        y_flat = cand
                        alpha_impl = 0.0
                        res.notes["proposals_rejected_at_u_1e-30"] = res.notes.get("proposals_rejected_at_u_1e-30", 0) + 1
            # ---- reference
            try:
                alpha_ref, y_expected, extra = _reference(kern, cfg, prog, args, paths, den, x_flat, x_ref, x_plp, y_flat, prop_events, res, sig, det, unobserved=(kern != "mh" and not changed and len(pieces) == 1))
            except _Skip as sk:
                res.notes[str(sk)] = res.notes.get(str(sk), 0) + 1
                return
            if alpha_impl is None:
                # proposed state == current state (or alpha == 0 exactly): accept and reject
                # are indistinguishable; nothing to compare
                alpha_impl = alpha_ref if alpha_ref is not None else 1.0
            if alpha_ref is not None and abs(alpha_impl - alpha_ref) > 3e-3 + 3e-3 * alpha_ref:
                res.violate(PROP, f"acceptance-probability:{sig}", alpha_applied=alpha_impl, alpha_reference=alpha_ref, proposed=y_flat, **dict(det, **extra))
            # unselected / observed untouched in the accepted trace
            for p in paths:
                if p not in den and not H.bits_equal(y_flat.get(p), x_flat[p]):
                    res.violate(PROP, f"unselected-changed:{sig}", address=p, old=x_flat[p], new=y_flat.get(p), **det)
                    break
            gfi.check_coherent(res, PROP, f"accepted-trace[{kern}]", tname, prog, args, {}, out_lo, detail=det)
            # transition bookkeeping for discrete targets
            yk = gfi.outcome_key(y_flat)
            P.setdefault(xk, {})
            P[xk][yk] = P[xk].get(yk, 0.0) + leaf.prob * alpha_impl
            P[xk][xk] = P[xk].get(xk, 0.0) + leaf.prob * (1 - alpha_impl)
            res.case(sig, xk, yk)
            if res.states % 97 == 1:
                res.add_sample({"target": tname, "selection": S.show(e), **kdesc, "start": x_flat, "proposal_path": tree.path_json(leaf), "alpha_applied": alpha_impl, "alpha_reference": alpha_ref})

        st = tree.explore(run, menu, on_leaf, max_leaves=3000 if tier == "quick" else 30000, check_determinism=False)
        res.transitions += st.nodes
        res.capped |= st.capped
    if kern == "mh" and all_discrete and not res.capped:
        # detailed balance + invariance over the enumerated state space
        keys = list(logpi)
        m = max(logpi.values())
        pi = {k: np.exp(v - m) for k, v in logpi.items()}
        Z = sum(pi.values())
        for a in keys:
            for b in keys:
                pab = P.get(a, {}).get(b, 0.0)
                pba = P.get(b, {}).get(a, 0.0)
                if abs(pi[a] * pab - pi[b] * pba) / Z > 2e-3:
                    res.violate(PROP, f"detailed-balance:{sig}", target=tname, selection=S.show(e), flow_ab=pi[a] * pab / Z, flow_ba=pi[b] * pba / Z)
                    break
        for b in keys:
            inflow = sum(pi[a] * P.get(a, {}).get(b, 0.0) for a in keys)
            if abs(inflow - pi[b]) / Z > 2e-3:
                res.violate(PROP, f"stationarity:{sig}", target=tname, selection=S.show(e), inflow=inflow / Z, pi=pi[b] / Z)
                break
        res.notes["discrete_state_spaces_checked"] = res.notes.get("discrete_state_spaces_checked", 0) + 1
    return res


class _Skip(Exception):
    pass


class _St:
    """adapter: tree.partition_unit_interval counts probes on a Stats-like object"""

    def __init__(self, res):
        self.res = res
        self.probes = 0

    def __setattr__(self, k, v):
        if k == "probes" and "res" in self.__dict__:
            self.res.transitions += max(0, v - self.__dict__.get("probes", 0))
        self.__dict__[k] = v


def _sites(prog):
    from checks.c01 import _all_sites

    return _all_sites(prog)


def _all_states(res, prog, args, fn, jargs, observed, paths):
    """Every complete choice map of a discrete target consistent with fixed observed values,
    as real traces (generate with everything constrained draws nothing)."""
    import jax
    import jax.numpy as jnp
    from mc import gfi
    from mc import ref as R

    key = jax.random.key(77)
    base = gfi.np_choices(gfi.corner_traces(fn, key, jargs, (-1,), res)[0])
    flat = R.flatten(base)
    free = [p for p in paths if p not in observed]
    sups = []
    for p in free:
        v = np.asarray(flat[p])
        sup = [np.bool_(False), np.bool_(True)] if v.dtype == np.bool_ else [np.int32(0), np.int32(1), np.int32(2)]
        sups.append([np.asarray(c, v.dtype).reshape(v.shape) for c in itertools.product(sup, repeat=v.size)])
    out = []
    for combo in itertools.product(*sups):
        f2 = dict(flat)
        for p, val in zip(free, combo):
            f2[p] = val
        try:
            if not np.isfinite(R.run(prog, args, R.unflatten(f2)).logp):
                continue
        except Exception:
            continue
        tr, _w = fn.generate(jax.tree_util.tree_map(jnp.asarray, R.unflatten(f2)), *jargs)
        res.evaluations += 1
        out.append(tr)
    return out


def _reference(kern, cfg, prog, args, paths, den, x_flat, x_ref, x_plp, y_flat, prop_events, res, sig, det, unobserved=False):
    """alpha_ref for the proposal that produced y (as seen with the uniform at ~0)."""
    from mc import ref as R
    from mc import gfi

    extra = {}
    if kern == "mh":
        y_ref = R.run(prog, args, R.unflatten(y_flat))
        y_plp = R.path_logp(y_ref)
        # proposal draws == conditional priors of exactly the selected sites under the new parents
        gfi.check_events(res, PROP, f"proposal[{sig}]", sig, prop_events, [s for s in y_ref.sites if s.path in den], [s for s in y_ref.optional], detail=det)
        lw = (y_ref.logp - x_ref.logp) - (sum(y_plp[p] for p in den) - sum(x_plp[p] for p in den))
        extra["log_weight_reference"] = lw
        return float(min(1.0, np.exp(lw))), None, extra
    # gradient kernels
    sel_paths = [p for p in den]
    if not sel_paths:
        raise _Skip("empty_selection_null_move")
    x, meta = _coords(x_flat, sel_paths)
    y, _ = _coords(y_flat, sel_paths)
    f = _logp_fn(prog, args, {p: np.asarray(v, np.float64) if np.asarray(v).dtype.kind == "f" else v for p, v in x_flat.items()}, meta)
    n_noise = sum(ev.lanes() for ev in prop_events)
    if any(ev.name != "Normal" or not (H.close(ev.args[0], 0.0, atol=0, rtol=0) and H.close(ev.args[1], 1.0, atol=0, rtol=0)) for ev in prop_events):
        res.violate(PROP, f"noise-not-standard-normal:{sig}", events=[ev.brief() for ev in prop_events][:3], **det)
    if n_noise != len(x):
        res.violate(PROP, f"noise-not-per-coordinate:{sig}", coordinates=len(x), standard_normal_draws=n_noise, **det)
        raise _Skip("noise_not_per_coordinate")
    noise = np.concatenate([np.asarray(ev.value, np.float64).reshape(-1) for ev in prop_events])
    if unobserved:
        # rejected even at u = 1e-30: the proposed state never shows in any output.  It is rebuilt from
        # the scripted noise by the float64 reference (every assignment of draws to coordinates) and the
        # reference acceptance probability must then be (numerically) zero for at least one assignment.
        alphas = []
        for perm in set(itertools.permutations(noise.tolist())):
            z = np.asarray(perm)
            if kern == "mala":
                tau = float(cfg)
                gx = _grad(f, x)
                yy = x + 0.5 * tau**2 * gx + tau * z
                with np.errstate(all="ignore"):
                    fy = f(yy)
                    if not np.isfinite(fy):
                        alphas.append(0.0)
                        continue
                    gy = _grad(f, yy)
                    la = fy - f(x) + _norm_logpdf(x, yy + 0.5 * tau**2 * gy, tau) - _norm_logpdf(yy, x + 0.5 * tau**2 * gx, tau)
            else:
                tau, Ls = float(cfg[0]), cfg[1]
                q, p = x.copy(), z.copy()
                with np.errstate(all="ignore"):
                    g = _grad(f, q)
                    for _ in range(Ls):
                        p = p + 0.5 * tau * g
                        q = q + tau * p
                        g = _grad(f, q)
                        p = p + 0.5 * tau * g
                    la = -((-f(q) + 0.5 * float(np.sum(p**2))) - (-f(x) + 0.5 * float(np.sum(z**2))))
            alphas.append(0.0 if not np.isfinite(la) else float(min(1.0, np.exp(la))))
        extra["alpha_reference_for_unobserved_proposal"] = alphas
        if min(alphas) > 1e-6:
            res.violate(PROP, f"acceptance-probability:{sig}", alpha_applied=0.0, alpha_reference=min(alphas), scripted_noise=noise, current=x, **dict(det, **extra))
        res.notes["gradient_proposals_rejected_at_u_1e-30"] = res.notes.get("gradient_proposals_rejected_at_u_1e-30", 0) + 1
        return None, None, extra
    if kern == "mala":
        tau = float(cfg)
        gx = _grad(f, x)
        implied = (y - x - 0.5 * tau**2 * gx) / tau
        if not H.close(np.sort(implied), np.sort(noise), rtol=2e-3, atol=2e-3):
            res.violate(PROP, f"proposal-map:{sig}", implied_noise=implied, scripted_noise=noise, gradient_reference=gx, proposed=y, current=x, **det)
            raise _Skip("proposal_map_mismatch")
        gy = _grad(f, y)
        fwd = _norm_logpdf(y, x + 0.5 * tau**2 * gx, tau)
        bwd = _norm_logpdf(x, y + 0.5 * tau**2 * gy, tau)
        la = f(y) - f(x) + bwd - fwd
        extra["log_alpha_reference"] = la
        return float(min(1.0, np.exp(la))), None, extra
    tau, Ls = cfg
    tau = float(tau)
    # float64 leapfrog for every assignment of the scripted momenta to coordinates is
    # avoided: momentum order is recovered from the first half-step-free relation
    # q1 = q0 + tau*(p0 + tau/2*g0)  (L=1) ; for L>1 try all orderings consistent with multiset
    best = None
    for perm in set(itertools.permutations(noise.tolist())):
        p0 = np.asarray(perm)
        q, p = x.copy(), p0.copy()
        g = _grad(f, q)
        for _ in range(Ls):
            p = p + 0.5 * tau * g
            q = q + tau * p
            g = _grad(f, q)
            p = p + 0.5 * tau * g
        err = float(np.max(np.abs(q - y)))
        if best is None or err < best[0]:
            best = (err, p0, q, p)
    err, p0, q, pL = best
    if err > 5e-3 + 5e-3 * float(np.max(np.abs(y))):
        res.violate(PROP, f"leapfrog-map:{sig}", proposed=y, reference_end=q, momentum=p0, current=x, **det)
        raise _Skip("leapfrog_mismatch")
    H0 = -f(x) + 0.5 * float(np.sum(p0**2))
    H1 = -f(q) + 0.5 * float(np.sum(pL**2))
    extra["delta_H_reference"] = H1 - H0
    return float(min(1.0, np.exp(-(H1 - H0)))), None, extra


def items(tier):
    its = []
    for tname, (prog, args, obs, sels) in _targets().items():
        gen = tname.startswith("g:")
        if gen and tier == "quick":
            continue
        for si, (e, kerns) in enumerate(sels):
            for k in kerns:
                if gen and k != "mh":
                    its.append((tname, si, k, 0.3 if k == "mala" else (0.2, 2)))
                    continue
                if k == "mh":
                    its.append((tname, si, "mh", None))
                elif k == "mala":
                    for tau in (0.3,) if tier == "quick" else (0.3, 0.05, 0.9):
                        its.append((tname, si, "mala", tau))
                else:
                    for cfg in ((0.2, 2),) if tier == "quick" else ((0.2, 1), (0.2, 2), (0.05, 3), (0.4, 3)):
                        its.append((tname, si, "hmc", cfg))
    return its


def main(tier, seed):
    t0 = time.time()
    its = items(tier)
    only = os.environ.get("VERIF_ONLY")
    if only:
        its = [it for it in its if only in str(it)]
    res, errors = H.fan_out("checks.c09", "work", its, tier, seed)
    rule = (
        "target trace (corner traces; for all-discrete targets EVERY state of the space) x selection x kernel config x full choice tree of the "
        "proposal randomness (mh: all outcomes of regenerated sites; mala/hmc: per-coordinate noise from {-1.1,0.3,1.7}); per leaf the accept "
        "threshold is located by bisection on the scripted uniform; states = proposals checked, transitions = real kernel executions"
    )
    return H.finish(
        PROP, tier, seed, "model_checking", res, errors, t0, rule,
        ["reference gradients by central differences in float64; acceptance probabilities compared to 3e-3", "continuous proposals on a 3-point noise grid per coordinate"],
        {"work_items": len(its)},
    )


def replay(path):
    import json

    j = json.load(open(path))
    print(json.dumps(j, indent=1)[:3000])
    os.environ["VERIF_ONLY"] = f"'{j['detail'].get('target')}'"
    return main("quick", int(os.environ.get("VERIF_SEED", "0") or 0))
