"""C18  chain returns exactly the burnt-in, thinned kernel iterates and diagnostics.

Grid (exhaustive): kernel in {mh on a discrete target, mala on a Gaussian target, a composite
kernel (mh then mala, saving `accept` twice + an extra diagnostic)} x n_steps 1..N x burn_in
0..n-1 x thinning 1..3 (non-empty result) x n_chains {1,2,3}, fixed key.
Oracle: result(b,t) == result(0,1) sliced [b::t] on traces and accepts, bit for bit (same
key => same randomness); result(0,1) == the kernel iterated BY HAND from the initial trace,
each hand step answered with the very draws the chain's step consumed (recorded at the
sampler seam, matched by sampler name + parameters, lane by lane for several chains);
accepts[i] == the accept flag the hand step saves; acceptance_rate == mean(accepts);
n_steps == number of retained states; several chains: leading chain axis, per-chain site
draws pairwise distinct, each chain == hand iteration with its own lane's draws.
"""

from __future__ import annotations

import os
import time

import numpy as np

from mc import harness as H

PROP = "C18"


def _setup(kname):
    import jax
    import jax.numpy as jnp
    from genjax import sel
    from genjax.inference import mh, mala
    from genjax.state import save
    from mc import lang as L
    from mc import family as F

    if kname == "mh_disc":
        prog, args = F.disc, (np.float32(0.3),)
        fn = L.compile_prog(prog)
        tr, _ = fn.generate({"x": jnp.asarray(False), "y": jnp.asarray(True), "c": jnp.asarray(2, jnp.int32)}, jnp.asarray(args[0]))
        kern = lambda t: mh(t, sel("x") | sel("y"))
        per_step = 3
    elif kname == "mala_gauss":
        prog, args = F.chain, (np.float32(0.3),)
        fn = L.compile_prog(prog)
        tr, _ = fn.generate({"x": jnp.float32(0.4), "y": jnp.float32(1.3)}, jnp.asarray(args[0]))
        kern = lambda t: mala(t, sel("x"), 0.4)
        per_step = 2
    elif kname == "composite":
        prog, args = F.chain, (np.float32(-1.2),)
        fn = L.compile_prog(prog)
        tr, _ = fn.generate({"x": jnp.float32(-0.7), "y": jnp.float32(0.4)}, jnp.asarray(args[0]))

        def kern(t):
            t1 = mh(t, sel("x"))
            t2 = mala(t1, sel("y"), 0.5)
            save(score_after=t2.get_score())
            return t2

        per_step = 4  # Normal(x) + Uniform ; Normal(noise) + Uniform
    else:
        # diagnostics saved before and after the move, under names sorting on either side of
        # "accept" (insertion order != alphabetical order)
        prog, args = F.chain, (np.float32(0.3),)
        fn = L.compile_prog(prog)
        tr, _ = fn.generate({"x": jnp.float32(1.3), "y": jnp.float32(-0.7)}, jnp.asarray(args[0]))

        def kern(t):
            save(zeta_energy=t.get_score() * 1.0)
            t1 = mh(t, sel("x"))
            save(alpha_marker=jnp.float32(7.0) + 0.0 * t1.get_score())
            return t1

        per_step = 2
    return prog, args, fn, tr, kern, per_step


def _leaves(t):
    import jax

    return [np.asarray(l) for l in jax.tree_util.tree_leaves(t)]


def _same(a, b, exact):
    la, lb = _leaves(a), _leaves(b)
    if len(la) != len(lb):
        return False
    for x, y in zip(la, lb):
        if x.shape != y.shape:
            return False
        if exact or x.dtype.kind in "bi":
            if x.tobytes() != y.astype(x.dtype).tobytes():
                return False
        elif not H.close(x, y, rtol=2e-5, atol=2e-5):
            return False
    return True


def _hand_step(kern, trace, pool, res):
    """One kernel application answered with the chain's own draws for that step.
    pool: list of (name, params tuple, value) still unused.  Returns (new trace, saved state)."""
    import jax
    from genjax import seed as gseed
    from genjax.state import state
    from mc import env, gfi
    from mc.tree import _undecided, _with

    f = gseed(state(kern))
    key = jax.random.key(424242)
    D = {}
    for _ in range(64):
        (out, saved), evs = env.run_recorded(f, key, trace, mode="script", decisions=D)
        res.evaluations += 1
        nxt = _undecided(evs)
        if nxt is None:
            return out, saved, pool
        ev, lane = nxt
        ps = gfi.lane_params(ev, lane)
        hit = None
        for j, (n, pps, val) in enumerate(pool):
            if n == ev.name and len(pps) == len(ps) and all(np.shape(a) == np.shape(b) and H.close(a, b, rtol=1e-5, atol=1e-5) for a, b in zip(pps, ps)):
                hit = j
                break
        if hit is None:
            raise LookupError(f"hand step draws {ev.name}{[np.asarray(p).tolist() for p in ps]} but the chain's step has no such draw left: {[(n, [np.asarray(q).tolist() for q in p]) for n, p, _ in pool]}")
        D = _with(D, ev.key, lane, pool[hit][2])
        pool = pool[:hit] + pool[hit + 1 :]
    raise RuntimeError("hand step did not terminate")


def work(item, tier, seed):
    import jax
    import jax.numpy as jnp
    from genjax import const, seed as gseed
    from genjax.core import handler_stack
    from genjax.inference import chain
    from mc import env, gfi
    from mc import ref as R

    env.install()
    res = H.Result()
    kname, n_chains, n = item
    prog, args, fn, tr0, kern, per_step = _setup(kname)
    key = jax.random.key(seed * 86028121 + 31)
    run = gseed(chain(kern))
    sig0 = f"{kname}:chains={n_chains}"
    det0 = {"kernel": kname, "n_steps": n, "n_chains": n_chains}

    def call(b, t):
        out, evs = env.run_recorded(lambda k, tr: run(k, tr, n_steps=const(n), burn_in=const(b), autocorrelation_resampling=const(t), n_chains=const(n_chains)), key, tr0, mode="monitor")
        res.evaluations += 1
        res.transitions += 1
        return out, evs

    try:
        base, evs = call(0, 1)
    except Exception as ex:
        handler_stack.clear()
        res.violate(PROP, f"chain-raises:{sig0}", error=f"{type(ex).__name__}: {str(ex)[:300]}", **det0)
        return res
    lead = (n_chains,) if n_chains > 1 else ()
    # ---- shapes / diagnostics of the un-thinned run
    acc = np.asarray(base.accepts)
    if acc.shape != lead + (n,):
        res.violate(PROP, f"accepts-shape:{sig0}", shape=list(acc.shape), **det0)
        return res
    if acc.dtype != np.bool_ and not np.all((acc == 0) | (acc == 1)):
        res.violate(PROP, f"accepts-not-flags:{sig0}", accepts=acc, **det0)
    if base.n_steps.value != n:
        res.violate(PROP, f"n_steps:{sig0}", reported=base.n_steps.value, **det0)
    if not H.close(np.asarray(base.acceptance_rate), np.mean(acc.astype(np.float64)), rtol=1e-5, atol=1e-6):
        res.violate(PROP, f"acceptance-rate:{sig0}", reported=np.asarray(base.acceptance_rate), mean_accepts=float(np.mean(acc)), **det0)
    for l in _leaves(base.traces):
        if l.shape[: len(lead) + 1] != lead + (n,):
            res.violate(PROP, f"trace-leaf-shape:{sig0}", shape=list(l.shape), **det0)
            return res
    # ---- hand iteration with the chain's own draws
    if len(evs) != n * per_step:
        res.violate(PROP, f"draw-count:{sig0}", events=len(evs), expected=n * per_step, **det0)
    else:
        keys = [e.key for e in evs]
        if len(set(keys)) != len(keys):
            res.violate(PROP, f"site-key-reused:{sig0}", **det0)
        for c in range(n_chains):
            t = tr0
            for i in range(n):
                step_evs = evs[i * per_step : (i + 1) * per_step]
                pool = []
                for e in step_evs:
                    if e.lanes() != max(1, n_chains):
                        res.violate(PROP, f"draw-lanes:{sig0}", name=e.name, lanes=e.lanes(), **det0)
                    pool.append((e.name, tuple(gfi.lane_params(e, c if n_chains > 1 else 0)), np.asarray(e.value).reshape(-1)[c] if n_chains > 1 else np.asarray(e.value).reshape(())))
                try:
                    t, saved, left = _hand_step(kern, t, pool, res)
                except LookupError as ex:
                    res.violate(PROP, f"hand-iteration-diverges:{sig0}", step=i, chain=c, error=str(ex)[:400], **det0)
                    break
                res.transitions += 1
                got = jax.tree_util.tree_map(lambda x: x[c][i] if n_chains > 1 else x[i], base.traces)
                res.states += 1
                res.validated += 1
                if not (_same(got.get_choices(), t.get_choices(), False) and _same(got.get_score(), t.get_score(), False) and _same(got.get_retval(), t.get_retval(), False)):
                    res.violate(PROP, f"state-differs-from-hand-iteration:{sig0}", step=i, chain=c, chain_state=R.flatten(R.to_numpy(got.get_choices())), hand_state=R.flatten(R.to_numpy(t.get_choices())), **det0)
                    break
                a_chain = bool(acc[c][i] if n_chains > 1 else acc[i])
                a_hand = bool(np.asarray(saved["accept"]))
                if a_chain != a_hand:
                    res.violate(PROP, f"accept-flag-misaligned:{sig0}", step=i, chain=c, reported=a_chain, hand=a_hand, **det0)
                    break
                res.case(kname, n_chains, n, c, i)
                if not res.samples:
                    res.add_sample(dict(det0, step=i, chain=c, hand_state=R.flatten(R.to_numpy(t.get_choices())), accept=a_hand))
        if n_chains > 1:
            # independent randomness per chain: continuous draws pairwise distinct across lanes
            for e in evs:
                v = np.asarray(e.value).reshape(n_chains, -1)
                if v.dtype.kind == "f" and len({r.tobytes() for r in v}) != n_chains:
                    res.violate(PROP, f"chains-share-randomness:{sig0}", name=e.name, values=v, **det0)
                    break
    # ---- burn-in / thinning grid against the slice of the un-thinned run
    for b in range(0, n):
        for t in (1, 2) if tier == "quick" else (1, 2, 3):
            idx = list(range(b, n, t))
            if not idx or (b, t) == (0, 1):
                continue
            try:
                r, _e = call(b, t)
            except Exception as ex:
                handler_stack.clear()
                res.violate(PROP, f"chain-raises:{sig0}", error=f"{type(ex).__name__}: {str(ex)[:300]}", burn_in=b, thinning=t, **det0)
                continue
            res.states += 1
            res.validated += 1
            d = dict(det0, burn_in=b, thinning=t)
            take = (lambda x: x[:, idx]) if n_chains > 1 else (lambda x: x[np.asarray(idx)])
            want_tr = jax.tree_util.tree_map(lambda x: take(np.asarray(x)), base.traces)
            if not _same(r.traces, want_tr, True):
                res.violate(PROP, f"slice-traces:{sig0}", retained_expected=idx, **d)
            if not _same(r.accepts, take(acc), True):
                res.violate(PROP, f"slice-accepts:{sig0}", accepts=np.asarray(r.accepts), expected=take(acc), **d)
            if r.n_steps.value != len(idx):
                res.violate(PROP, f"n_steps:{sig0}", reported=r.n_steps.value, expected=len(idx), **d)
            if not H.close(np.asarray(r.acceptance_rate), np.mean(take(acc).astype(np.float64)), rtol=1e-5, atol=1e-6):
                res.violate(PROP, f"acceptance-rate:{sig0}", reported=np.asarray(r.acceptance_rate), expected=float(np.mean(take(acc))), **d)
            res.case(kname, n_chains, n, "slice", b, t)
            if res.states % 23 == 1 or not res.samples:
                res.add_sample(dict(d, retained_indices=idx, accepts=np.asarray(r.accepts)))
    return res


def items(tier):
    its = []
    nmax = 3 if tier == "quick" else 6
    for k in ("mh_disc", "mala_gauss", "composite", "composite_presave"):
        for c in (1, 2) if tier == "quick" else (1, 2, 3):
            for n in range(1, nmax + 1):
                its.append((k, c, n))
    return its


def main(tier, seed):
    t0 = time.time()
    its = items(tier)
    only = os.environ.get("VERIF_ONLY")
    if only:
        its = [it for it in its if only in str(it)]
    res, errors = H.fan_out("checks.c18", "work", its, tier, seed)
    rule = (
        "kernel in {mh discrete, mala gaussian, composite mh+mala with extra saves} x n_chains {1,2[,3]} x n_steps 1..3 (6 thorough) x every "
        "(burn_in, thinning in 1..2 quick / 1..3 thorough) with a non-empty result; states = retained-state comparisons (hand iteration steps + grid cells), "
        "transitions = real chain / kernel executions"
    )
    return H.finish(PROP, tier, seed, "model_checking", res, errors, t0, rule, ["hand iteration runs eagerly, the chain inside lax.scan: float leaves compared to 2e-5, discrete leaves and all slice identities bit for bit"], {"work_items": len(its)})


def replay(path):
    import json

    j = json.load(open(path))
    print(json.dumps(j, indent=1)[:3000])
    d = j["detail"]
    os.environ["VERIF_ONLY"] = f"('{d.get('kernel')}', {d.get('n_chains')}, {d.get('n_steps')})"
    return main("quick", int(os.environ.get("VERIF_SEED", "0") or 0))
