"""C15  On deterministic code ADEV is ordinary forward-mode AD, for any argument shape.

Pure enumeration (no randomness): a corpus of deterministic JAX programs

    program  =  op_k( ... op_1( root(args) ) ... ),   k <= 2

where `root` is the identity on a plain argument (python float, scalar, (3,), (2,3), (3,3) SPD)
or one of a few binary combiners on a pytree / multi-positional argument (dict, tuple, nested,
two positional arrays), and every op_i is one of the OPS below (arithmetic, transcendental,
indexing / slicing, transpose, reshape, dot / @, reductions, cholesky / solve, integer and
boolean intermediates, astype, where, lax.cond with either branch, stop_gradient,
concatenate / stack, cumsum).  A composition is in the corpus iff it type-checks (static
applicability predicate on the intermediate shape, shapes by jax.eval_shape of plain JAX).
quick: every depth<=1 program on the 10 primary roots (one per argument class) + a fixed diagonal of
depth-2, a thin slice on the 7 secondary combiner roots; thorough: all depth-2 on the primary roots.
Violation signatures name method, failure, the smallest failing sub-program (root expression or
single op on a fresh argument of the same shape) and its argument shape class.

For every program f and argument a, eagerly and under jax.jit:
  expectation(f).estimate(*a)                      == f(*a)
  expectation(f).jvp_estimate(*Dual(a, t))         == jax.jvp(f, a, t)     (2 tangent directions)
  expectation(sum . f).grad_estimate(*a)           == jax.grad(sum . f)(*a)
Oracle = plain JAX AD, which the property names as the reference.
"""

from __future__ import annotations

import os
import time

import numpy as np

from mc import harness as H

PROP = "C15"
RTOL = 1e-5
SRC = "/repo/src/genjax/adev/__init__.py"

# ------------------------------------------------------------------------------ arguments

_SPD = np.asarray([[2.0, 0.5, 0.3], [0.5, 1.5, -0.4], [0.3, -0.4, 1.8]], np.float32)
_VEC = np.asarray([0.5, -1.2, 2.0], np.float32)
_M23 = np.asarray([[0.3, -0.8, 1.5], [2.1, 0.9, -0.4]], np.float32)
_SPD_C = np.asarray([[1.7, 0.2, -0.3], [0.2, 2.2, 0.6], [-0.3, 0.6, 1.4]], np.float32)  # constant in `solve-rhs`


def _tangent(a, k):
    """Two fixed tangent directions per leaf: all-ones and a sign-changing ramp."""
    a = np.asarray(a, np.float32)
    if k == 0:
        return np.ones(a.shape, np.float32)
    n = max(a.size, 1)
    return (np.linspace(-1.0, 0.7, n, dtype=np.float32) if n > 1 else np.asarray([-0.6], np.float32)).reshape(a.shape)


def _arguments(root):
    """-> (args tuple of pytrees with float32 leaves, spd flag of the root value)."""
    import jax.numpy as jnp

    J = jnp.asarray
    kind = ROOTS[root][0]
    if kind == "pyfloat":
        return (0.7,), False
    if kind == "scalar":
        return (J(np.float32(0.7)),), False
    if kind == "vector":
        return (J(_VEC),), False
    if kind == "matrix23":
        return (J(_M23),), False
    if kind == "spd33":
        return (J(_SPD),), True
    if kind == "dict":  # {"a": (3,), "b": (2,3)}
        return ({"a": J(_VEC), "b": J(_M23)},), False
    if kind == "tuple":  # (scalar, (3,))
        return ((J(np.float32(0.7)), J(_VEC)),), False
    if kind == "dictspd":  # {"A": (3,3) SPD, "b": (3,)}
        return ({"A": J(_SPD), "b": J(_VEC)},), False
    if kind == "args2":  # two positional arguments (2,3), (3,)
        return (J(_M23), J(_VEC)), False
    if kind == "nested":  # {"p": (scalar, (3,)), "q": (2,3)}
        return ({"p": (J(np.float32(0.7)), J(_VEC)), "q": J(_M23)},), False
    raise ValueError(kind)


def _root_fn(root):
    import jax
    import jax.numpy as jnp

    table = {
        "id": lambda x: x,
        "dict-dot": lambda d: jnp.dot(d["b"], d["a"]),
        "dict-mul": lambda d: d["b"] * d["a"],
        "dict-concat": lambda d: jnp.concatenate([d["b"], d["a"][None, :]]),
        "tuple-scale": lambda t: t[0] * t[1],
        "tuple-where": lambda t: jnp.where(t[1] > t[0], t[1], t[0] * t[1]),
        "tuple-cond-true": lambda t: jax.lax.cond(t[0] > 0.0, lambda s, v: s * v, lambda s, v: v - s, t[0], t[1]),
        "tuple-cond-false": lambda t: jax.lax.cond(t[0] < 0.0, lambda s, v: s * v, lambda s, v: v - s, t[0], t[1]),
        "dictspd-solve": lambda d: jnp.linalg.solve(d["A"], d["b"]),
        "dictspd-quad": lambda d: d["b"] @ d["A"] @ d["b"],
        "args2-matvec": lambda x, y: x @ y,
        "args2-stack": lambda x, y: jnp.stack([x[0], y * x[1]]),
        "nested-affine": lambda d: d["q"] * d["p"][0] + d["p"][1],
    }
    return table[ROOTS[root][1]]


# root name -> (argument kind, root expression, shape class in signatures, primary root of its argument class)
ROOTS = {
    "pyfloat": ("pyfloat", "id", "pyfloat", True),
    "scalar": ("scalar", "id", "scalar", True),
    "vector": ("vector", "id", "vector", True),
    "matrix23": ("matrix23", "id", "matrix", True),
    "spd33": ("spd33", "id", "matrix", True),
    "dict-dot": ("dict", "dict-dot", "pytree", True),
    "dict-mul": ("dict", "dict-mul", "pytree", False),
    "dict-concat": ("dict", "dict-concat", "pytree", False),
    "tuple-scale": ("tuple", "tuple-scale", "pytree", True),
    "tuple-where": ("tuple", "tuple-where", "pytree", False),
    "tuple-cond-true": ("tuple", "tuple-cond-true", "pytree", False),
    "tuple-cond-false": ("tuple", "tuple-cond-false", "pytree", False),
    "dictspd-solve": ("dictspd", "dictspd-solve", "pytree", True),
    "dictspd-quad": ("dictspd", "dictspd-quad", "pytree", False),
    "args2-matvec": ("args2", "args2-matvec", "pytree", True),
    "args2-stack": ("args2", "args2-stack", "pytree", False),
    "nested-affine": ("nested", "nested-affine", "pytree", True),
}

# ------------------------------------------------------------------------------ operations


def _ops():
    """name -> (applicable(shape, spd), fn).  Every op maps a float array to a float array of
    rank <= 2 and keeps values finite and below ~1e5 in float32 on the fixed arguments (depth <= 2)."""
    import jax
    import jax.numpy as jnp

    def nd(*ranks):
        return lambda s, spd: len(s) in ranks

    anyr = nd(0, 1, 2)
    arr = nd(1, 2)
    mat = nd(2)

    def cvec(n):
        return jnp.asarray(np.linspace(0.4, 1.3, n, dtype=np.float32))

    def mask(shape):
        shape = tuple(shape)
        n = int(np.prod(shape)) if shape else 1
        return jnp.asarray((np.arange(n) % 2 == 0).reshape(shape))

    def reshape(x):
        if jnp.ndim(x) == 0:
            return jnp.reshape(x, (1,))
        if x.ndim == 1:
            return x.reshape(-1, 1)
        return x.reshape(-1)

    def dot(x):
        if x.ndim == 1:
            return jnp.dot(x, x)
        return jnp.dot(x, cvec(x.shape[1]))

    def matmul(x):
        if x.ndim == 1:
            w = jnp.asarray(np.linspace(-0.5, 0.9, 2 * x.shape[0], dtype=np.float32).reshape(2, x.shape[0]))
            return w @ x
        return x @ x.T

    def cond_closure(pred):
        def f(x):
            s = 0.1 * jnp.sum(x * x)
            p = (s >= 0.0) if pred else (s < 0.0)  # predicate computed from the input
            return jax.lax.cond(p, lambda y: y * 2.0 + s, lambda y: jnp.sin(y) - s, x)

        return f

    def cond_first(x):
        return jax.lax.cond(jnp.ravel(x)[0] > 0.0, lambda y: y * y, lambda y: -3.0 * y, x)

    def cond_pair(x):
        a, b = jax.lax.cond(jnp.sum(x * x) >= 0.0, lambda y: (y * 2.0, jnp.cos(y)), lambda y: (y, y * y), x)
        return a + b

    O = {
        # arithmetic with constants
        "add": (anyr, lambda x: x + 1.5),
        "sub": (anyr, lambda x: 2.0 - x),
        "mul": (anyr, lambda x: x * 0.7),
        "div": (anyr, lambda x: x / 2.5),
        "rdiv": (anyr, lambda x: 1.5 / (x * x + 1.0)),
        # multi-result primitives at the top level whose FIRST result is an integer counter
        "fori-loop": (anyr, lambda x: jax.lax.fori_loop(0, 3, lambda i, acc: acc * 0.5 + x * (i + 1.0), jnp.zeros_like(x))),
        "scan-int-counter": (anyr, lambda x: jax.lax.scan(lambda c, _: ((c[0] + 1, c[1] * 0.7 + x * c[0]), None), (jnp.int32(1), jnp.ones_like(x)), None, length=3)[0][1]),
        "jit-argmax-max": (arr, lambda x: (lambda im: im[1] * 2.0 + 0.0 * im[0])(jax.jit(lambda y: (jnp.argmax(y), jnp.max(y)))(x))),
        # complex intermediates between real input and real output (dtype conversions)
        "complex-abs": (anyr, lambda x: jnp.abs(jax.lax.complex(x, 0.5 * x * x + 1.0))),
        "exp-i-real": (anyr, lambda x: jnp.real(jnp.exp(1j * x)) + jnp.imag(jnp.exp(1j * x))),
        "fft-abs": (nd(1), lambda x: jnp.abs(jnp.fft.fft(x)) ** 2),
        # transcendental
        "sin": (anyr, jnp.sin),
        "exp": (anyr, lambda x: jnp.exp(0.5 * x)),
        "tanh": (anyr, jnp.tanh),
        "log1p-square": (anyr, lambda x: jnp.log1p(x * x)),
        # indexing / slicing
        "index0": (arr, lambda x: x[0]),
        "slice1": (lambda s, spd: len(s) in (1, 2) and s[0] >= 2, lambda x: x[1:]),
        "reverse": (arr, lambda x: x[::-1]),
        # shape
        "dotT": (mat, lambda x: x.T),
        "transpose": (mat, lambda x: jnp.transpose(x, (1, 0))),
        "reshape": (anyr, reshape),
        # products
        "dot": (arr, dot),
        "matmul": (arr, matmul),
        # reductions
        "sum": (anyr, jnp.sum),
        "mean": (arr, lambda x: jnp.mean(x, axis=0)),
        "max": (arr, jnp.max),
        "prod": (arr, lambda x: jnp.prod(x, axis=-1)),
        # linear algebra on an SPD matrix
        "cholesky": (lambda s, spd: spd, jnp.linalg.cholesky),
        "cholesky-gram": (mat, lambda x: jnp.linalg.cholesky(x @ x.T + 2.0 * jnp.eye(x.shape[0], dtype=x.dtype))),
        "solve": (lambda s, spd: spd, lambda x: jnp.linalg.solve(x, cvec(x.shape[0]))),
        "solve-rhs": (lambda s, spd: len(s) in (1, 2) and s[0] == 3, lambda x: jnp.linalg.solve(jnp.asarray(_SPD_C), x)),
        # integer / boolean intermediates, dtype conversion
        "argmax-index": (arr, lambda x: jnp.ravel(x)[jnp.argmax(x)]),
        "gt-where": (anyr, lambda x: jnp.where(x > 0, x, 0.1 * x)),
        "astype-int-float": (anyr, lambda x: jnp.asarray(x).astype(jnp.int32).astype(jnp.float32) + 0.5 * x),
        "where": (anyr, lambda x: jnp.where(mask(jnp.shape(x)), x, x * x)),
        # cond
        "cond-true-branch": (anyr, cond_closure(True)),
        "cond-false-branch": (anyr, cond_closure(False)),
        "cond-first-element": (anyr, cond_first),
        "cond-pair-output": (anyr, cond_pair),
        # misc
        "stop-gradient": (anyr, lambda x: x * jax.lax.stop_gradient(x)),
        "concatenate": (arr, lambda x: jnp.concatenate([x, 2.0 * x])),
        "stack": (nd(0, 1), lambda x: jnp.stack([x, jnp.sin(x)])),
        "cumsum": (arr, lambda x: jnp.cumsum(x, axis=0)),
    }
    return O


_KEEPS_SPD = ("dotT", "transpose", "mul", "div")
_OPS_CACHE = None


def OPS():
    global _OPS_CACHE
    if _OPS_CACHE is None:
        _OPS_CACHE = _ops()
    return _OPS_CACHE


_SHAPE_CACHE = {}


def _out_shape(op, shape):
    import jax
    import jax.numpy as jnp

    k = (op, shape)
    if k not in _SHAPE_CACHE:
        o = jax.eval_shape(OPS()[op][1], jax.ShapeDtypeStruct(shape, jnp.float32))
        assert o.dtype == jnp.float32 and len(o.shape) <= 2, (op, shape, o)
        _SHAPE_CACHE[k] = tuple(o.shape)
    return _SHAPE_CACHE[k]


def _root_shape(root):
    import jax

    args, spd = _arguments(root)
    o = jax.eval_shape(_root_fn(root), *args)
    return tuple(o.shape), spd


def _diagonal(names, i, s1, spd1, partners):
    """Fixed diagonal: for the i-th first op, the next applicable second ops from fixed strides."""
    n = len(names)
    picked = []
    for start in ((5 * i + 3) % n, (11 * i + 17) % n)[:partners]:
        for j in range(n):
            o2 = names[(start + j) % n]
            if OPS()[o2][0](s1, spd1) and o2 not in picked:
                picked.append(o2)
                break
    return picked


def programs(root, tier):
    """Deterministic list of op tuples (length 0..2) for a root.

    primary roots (one per argument class):  quick = depth<=1 complete + depth-2 diagonal (1 partner per first op on the
      plain-array roots, every 4th first op on the pytree roots); thorough = depth<=2 complete.
    secondary roots (further combiners on the same pytree classes, python-float argument): quick = depth 0 + every 4th
      depth-1 op (offset by the root's index); thorough = depth<=1 complete + depth-2 diagonal with 2 partners."""
    names = list(OPS())
    s0, spd0 = _root_shape(root)
    primary = ROOTS[root][3]
    plain = ROOTS[root][1] == "id"
    full = tier == "thorough"
    out = [()]
    d1 = [o for o in names if OPS()[o][0](s0, spd0)]
    if primary or full:
        out += [(o,) for o in d1]
    else:
        off = list(ROOTS).index(root) % 4
        out += [(o,) for j, o in enumerate(d1) if j % 4 == off]
        return out
    for j, o1 in enumerate(d1):
        s1 = _out_shape(o1, s0)
        spd1 = spd0 and o1 in _KEEPS_SPD
        if full and primary:
            out += [(o1, o2) for o2 in names if OPS()[o2][0](s1, spd1)]
        elif full:
            out += [(o1, o2) for o2 in _diagonal(names, names.index(o1), s1, spd1, 2)]
        elif plain or j % 4 == 1:
            out += [(o1, o2) for o2 in _diagonal(names, names.index(o1), s1, spd1, 1)]
    return out


def build(root, ops):
    rf = _root_fn(root)
    fns = [OPS()[o][1] for o in ops]

    def f(*args):
        v = rf(*args)
        for g in fns:
            v = g(v)
        return v

    f.__name__ = "prog_" + "_".join((root,) + tuple(ops)).replace("-", "_")
    return f


def show(root, ops):
    s = f"{ROOTS[root][1]}(args)" if ROOTS[root][1] != "id" else "x"
    for o in ops:
        s = f"{o}({s})"
    return s


# ------------------------------------------------------------------------------ one case


def _leaves_close(got, ref):
    """None if the pytrees agree (structure, shapes, dtypes, values within rtol), else a reason."""
    import jax.tree_util as jtu

    gl, gt = jtu.tree_flatten(got)
    rl, rt = jtu.tree_flatten(ref)
    if gt != rt:
        return "structure", f"tree structure {gt} != {rt}"
    for g, r in zip(gl, rl):
        g = np.asarray(g)
        if isinstance(r, (float, int)):  # a python-float program evaluated by plain Python: canonical JAX dtype
            r = np.asarray(r, np.float32)
        r = np.asarray(r)
        if g.shape != r.shape:
            return "shape", f"shape {g.shape} != {r.shape}"
        if g.dtype != r.dtype:
            return "shape", f"dtype {g.dtype} != {r.dtype}"
        scale = max(1.0, float(np.max(np.abs(r)))) if r.size else 1.0
        if not np.allclose(g.astype(np.float64), r.astype(np.float64), rtol=RTOL, atol=RTOL * scale):
            return "value", f"max abs diff {float(np.max(np.abs(g.astype(np.float64) - r.astype(np.float64)))):.3g}"
    return None


def _oracle(f, args):
    """Plain JAX: value, jvp for the two tangent directions, gradient of the summed program."""
    import jax
    import jax.numpy as jnp
    import jax.tree_util as jtu

    tans = [jtu.tree_map(lambda a: (float(_tangent(a, k)) if isinstance(a, float) else jnp.asarray(_tangent(a, k))), args) for k in (0, 1)]
    val = f(*args)
    jv = [jax.jvp(f, args, t) for t in tans]

    def g(*a):
        return jnp.sum(f(*a))

    gr = jax.grad(g, argnums=tuple(range(len(args))))(*args)
    if len(args) == 1:
        gr = gr[0]
    for leaf in jtu.tree_leaves((val, jv, gr)):
        if not np.all(np.isfinite(np.asarray(leaf))):
            raise RuntimeError("corpus bug: the reference is not finite")
    return tans, val, jv, gr, g


def _clear():
    from genjax.core import handler_stack

    handler_stack.clear()


def run_case(f, args, res=None):
    """Execute the three ADEV interfaces eagerly and under jit and compare with plain JAX.
    -> list of failures {method, kind, mode, what}."""
    import jax
    from genjax.adev import Dual, expectation

    tans, val, jv, gr, g = _oracle(f, args)
    e = expectation(f)
    eg = expectation(g)

    def est(*a):
        return e.estimate(*a)

    def jvp(a, t):
        out = e.jvp_estimate(*Dual.dual_tree(a, t))
        if not isinstance(out, Dual):
            raise TypeError(f"jvp_estimate returned {type(out).__name__}, not a Dual, for an array-valued program")
        return out.primal, out.tangent

    def grad(*a):
        return eg.grad_estimate(*a)

    fails = []

    def attempt(method, mode, thunk, compare):
        if res is not None:
            res.transitions += 1
            res.evaluations += 1
        try:
            out = thunk()
            out = jax.block_until_ready(out)
        except Exception as ex:  # noqa: BLE001 - any exception of the real code is the observation
            _clear()
            fails.append({"method": method, "kind": "raises", "mode": mode, "what": f"{type(ex).__name__}: {str(ex)[:300]}"})
            return
        for kind, why in compare(out):
            fails.append({"method": method, "kind": kind, "mode": mode, "what": why})

    def cmp_est(out):
        r = _leaves_close(out, val)
        return [("value" if r[0] == "value" else r[0], r[1])] if r else []

    def cmp_jvp(k):
        def c(out):
            bad = []
            rp = _leaves_close(out[0], jv[k][0])
            if rp:
                bad.append(("primal" if rp[0] == "value" else "primal-" + rp[0], f"direction {k}: {rp[1]}"))
            rt = _leaves_close(out[1], jv[k][1])
            if rt:
                bad.append(("tangent" if rt[0] == "value" else "tangent-" + rt[0], f"direction {k}: {rt[1]}"))
            return bad

        return c

    def cmp_grad(out):
        r = _leaves_close(out, gr)
        return [("value" if r[0] == "value" else r[0], r[1])] if r else []

    for mode in ("eager", "jit"):
        wrap = (lambda h: h) if mode == "eager" else jax.jit
        h_est, h_jvp, h_grad = wrap(est), wrap(jvp), wrap(grad)
        attempt("estimate", mode, lambda: h_est(*args), cmp_est)
        for k in (0, 1):
            attempt("jvp", mode, lambda: h_jvp(args, tans[k]), cmp_jvp(k))
        attempt("grad", mode, lambda: h_grad(*args), cmp_grad)
    # one entry per (method, kind, mode)
    uniq = {}
    for x in fails:
        uniq.setdefault((x["method"], x["kind"], x["mode"]), x)
    return list(uniq.values()), {"value": val, "jvp": jv, "grad": gr, "tangents": tans}


def _sig_head(method, kind):
    if method == "grad":
        return "grad" if kind == "value" else f"grad-{kind}"
    return f"{method}-{kind}"


_WHERE = {
    "estimate": f"{SRC}:895 Expectation.estimate: tangents = tree_map(lambda _: 0.0, args) (python-float tangents, not shaped like the primals)",
    "jvp": f"{SRC}:490-649 ADEV.eval_jaxpr_adev (default primitive path 604-633, cond 575-602, single-output unpack 644)",
    "grad": f"{SRC}:815-860 grad_estimate -> invoke_closed_over_jvp (1016-1021) -> ADEV.eval_jaxpr_adev",
}

_SINGLE_CACHE = {}
_ROOT_CACHE = {}


def _shape_class(shape):
    return {0: "scalar", 1: "vector"}.get(len(shape), "matrix")


def _single_fails(op, value, spd):
    """Failures of the one-op program `op` on a fresh plain argument shaped like `value` (cached per shape)."""
    import jax.numpy as jnp

    value = jnp.asarray(value)
    k = (op, tuple(value.shape), bool(spd))
    if k not in _SINGLE_CACHE:
        try:
            fl, _ = run_case(build("vector", (op,)), (value,))  # root 'vector' = identity root
            _SINGLE_CACHE[k] = {(x["method"], x["kind"], x["mode"]) for x in fl}
        except RuntimeError:
            _SINGLE_CACHE[k] = set()
    return _SINGLE_CACHE[k]


def attribute(root, ops, args, spd0, fail):
    """Smallest sub-program that fails in the same way: the root expression alone, else the first single op that
    fails on a fresh argument equal to its actual input, else the whole chain."""
    key = (fail["method"], fail["kind"], fail["mode"])
    is_id = ROOTS[root][1] == "id"
    if not ops:
        return ("root-" + ROOTS[root][1], ROOTS[root][2], show(root, ()))
    if not is_id:
        if root not in _ROOT_CACHE:
            fl, _ = run_case(build(root, ()), args)
            _ROOT_CACHE[root] = {(x["method"], x["kind"], x["mode"]) for x in fl}
        if key in _ROOT_CACHE[root]:
            return ("root-" + ROOTS[root][1], ROOTS[root][2], show(root, ()))
    v = _root_fn(root)(*args)
    spd = spd0
    if len(ops) > 1 or not is_id:
        for o in ops:
            if key in _single_fails(o, v, spd):
                import jax.numpy as jnp

                return (o, _shape_class(jnp.shape(v)), f"{o}(x), x of shape {tuple(jnp.shape(v))}")
            v = OPS()[o][1](v)
            spd = spd and o in _KEEPS_SPD
    cls = ROOTS[root][2]
    name = ">".join(ops) if is_id else ">".join(("root-" + ROOTS[root][1],) + tuple(ops))
    return (name, cls, show(root, ops))


def check_program(res, root, ops):
    import jax.tree_util as jtu

    args, spd0 = _arguments(root)
    f = build(root, ops)
    fails, ref = run_case(f, args, res)
    res.states += 1
    res.validated += 1
    res.case(root, ops)
    if any(np.any(np.asarray(t) != 0) for t in jtu.tree_leaves([j[1] for j in ref["jvp"]])):
        res.nontrivial += 1
    if not fails:
        return ref
    # one violation per (method, kind); eager failures carry the plain signature, jit-only ones a prefix
    by = {}
    for x in fails:
        by.setdefault((x["method"], x["kind"]), {})[x["mode"]] = x
    for (method, kind), modes in sorted(by.items()):
        first = modes.get("eager") or modes["jit"]
        op, cls, minimal = attribute(root, ops, args, spd0, first)
        head = _sig_head(method, kind)
        if "eager" not in modes:
            head = "jit-" + head
        sig = f"{head}:{op}:{cls}"
        res.violate(
            PROP,
            sig,
            program=show(root, ops),
            root=root,
            ops=list(ops),
            minimal_failing_program=minimal,
            arguments=jtu.tree_map(lambda a: np.asarray(a).tolist(), args),
            method=method,
            failure=kind,
            modes=sorted(modes),
            observed=first["what"],
            reference={"value": ref["value"], "jvp_direction0": ref["jvp"][0], "grad": ref["grad"]},
            where=_WHERE[method],
        )
    return ref


# ------------------------------------------------------------------------------ work / main


def work(item, tier, seed):
    import jax

    root, lo, hi = item
    res = H.Result()
    progs = programs(root, tier)[lo:hi]
    seen = set()
    for i, ops in enumerate(progs):
        nv = len(res.violations)
        ref = check_program(res, root, ops)
        # keep the first violation per signature in this item
        keep = []
        for v in res.violations[nv:]:
            if v.sig not in seen:
                seen.add(v.sig)
                keep.append(v)
        res.violations[nv:] = keep
        if i % 16 == 0:
            res.add_sample(
                {
                    "program": show(root, ops),
                    "root": root,
                    "output_shape": list(np.shape(ref["value"])),
                    "jvp_tangent_direction0": np.asarray(ref["jvp"][0][1]).ravel()[:4],
                    "violations_here": len(res.violations) - nv,
                }
            )
        if (i + 1) % 150 == 0:
            jax.clear_caches()
    for d in (0, 1, 2):
        res.notes[f"programs_depth{d}"] = sum(1 for ops in progs if len(ops) == d)
    return res


def _items(tier):
    items = []
    step = 12 if tier == "quick" else 40
    for root in ROOTS:
        n = len(programs(root, tier))
        for lo in range(0, n, step):
            items.append((root, lo, min(n, lo + step)))
    return items


def main(tier, seed):
    t0 = time.time()
    items = _items(tier)
    only = os.environ.get("VERIF_ONLY")
    if only:
        items = [it for it in items if only in str(it)]
    res, errors = H.fan_out("checks.c15", "work", items, tier, seed)
    per_root = {r: len(programs(r, tier)) for r in ROOTS}
    extra = {
        "operations": len(OPS()),
        "roots": len(ROOTS),
        "programs_per_root": per_root,
        "program_argument_pairs": sum(per_root.values()),
        "work_items": len(items),
        "rtol": RTOL,
    }
    rule = (
        f"corpus = op_k(...op_1(root(args))), k<=2, over {len(OPS())} operations (arithmetic, transcendental, indexing/slicing, transpose/.T, reshape, "
        "dot/@, sum/mean/max/prod, cholesky/solve on SPD, argmax-indexing, x>0-where, astype int->float, where, lax.cond true/false/data-dependent/"
        "pair-output, stop_gradient, concatenate/stack, cumsum) and 17 roots (python float, scalar, (3,), (2,3), (3,3) SPD, and 12 combiners on dict / "
        "tuple / nested / two-positional arguments); every type-correct composition of depth<=1 on the primary roots, plus "
        + (
            "all of depth 2 on the 10 primary roots and a 2-partner diagonal of depth 2 on the 7 secondary roots"
            if tier == "thorough"
            else "a fixed diagonal of depth 2 (one partner per first op on the 5 plain-argument roots, per 4th first op on the 5 primary pytree roots); "
            "the 7 secondary roots (further combiners on the same pytree classes) carry depth 0 and every 4th depth-1 op"
        )
        + "; states = (program, argument) pairs; transitions = real calls of estimate / jvp_estimate (2 tangent directions) / grad_estimate, "
        "each eager and under jax.jit (8 per pair), compared with f / jax.jvp / jax.grad at rtol 1e-5"
    )
    assumptions = [
        "oracle = plain JAX (jax.jvp / jax.grad / f), which the property itself names as the reference",
        "one fixed argument value per shape and two fixed tangent directions (all-ones, sign-changing ramp); values chosen away from ties and branch points",
        "programs have a single array output (pytrees only on the argument side, as the property states); gradient checks use sum . f",
        "compositions deeper than 2 and array ranks above 2 are not enumerated",
    ]
    return H.finish(PROP, tier, seed, "model_checking", res, errors, t0, rule, assumptions, extra)


def replay(path):
    import json

    j = json.load(open(path))
    d = j["detail"]
    print("replaying", j["sig"], "--", d["program"])
    root, ops = d["root"], tuple(d["ops"])
    args, _ = _arguments(root)
    fails, ref = run_case(build(root, ops), args)
    for x in fails:
        print(f"  {x['method']:9s} {x['mode']:5s} {x['kind']:8s} {x['what'][:200]}")
    same = [x for x in fails if x["method"] == d["method"] and x["kind"] == d["failure"]]
    print("reference value:", np.asarray(ref["value"]).tolist())
    print("still failing" if same else "no longer failing")
    return 1 if same else 0
