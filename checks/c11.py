"""C11  ADEV value and gradient estimators are unbiased (exact for enumeration).

Programs are given as small specs (sites with parameter functions of theta and of earlier
values, and a polynomial / where / cond tail).  From one spec the check builds (a) the real
@expectation program from the ADEV primitives and (b) an independent exact expectation
E(theta) by recursive enumeration (discrete sites: full support, geometric truncated with a
stated tail bound) and Gauss-Hermite / Gauss-Legendre quadrature in pathwise form (exact:
integrands are polynomials of degree <= 2n-1), differentiated with plain jax.grad.
All internal randomness of the estimators flows through genjax samplers and is scripted at
the seam: the FULL choice tree of seed(prog.estimate / grad_estimate / jvp_estimate) is explored,
discrete draws over their support with reference pmf, continuous draws over the quadrature
nodes with their weights.
Oracle: sum_leaves P * estimate == E(theta); sum_leaves P * grad_estimate == E'(theta)
(unbiasedness, incl. cross terms of composed estimators); enumeration-only programs: no
sampling event at all and the single value is exact (zero variance); programs whose only
sampled site is reparameterised: at EVERY leaf grad_estimate == d/dtheta f(g(eps; theta)) for
the scripted eps (pathwise identity per draw).  Configurations: jit(seed) for the trees, and an
eager seeded replay of leaves; batched sites under modular_vmap.
"""

from __future__ import annotations

import itertools
import os
import time

import numpy as np

from mc import harness as H

PROP = "C11"
GEOM_K = 90

# name -> (family, adev attribute)
PRIMS = {
    "flip_enum": ("bern", "flip_enum"),
    "flip_enum_parallel": ("bern", "flip_enum_parallel"),
    "flip_mvd": ("bern", "flip_mvd"),
    "flip_reinforce": ("bern", "flip_reinforce"),
    "categorical_enum_parallel": ("cat", "categorical_enum_parallel"),
    "geometric_reinforce": ("geom", "geometric_reinforce"),
    "normal_reparam": ("normal", "normal_reparam"),
    "normal_reinforce": ("normal", "normal_reinforce"),
    "normal_reparam_vec": ("normal_vec", "normal_reparam"),
    "normal_reinforce_vec": ("normal_vec", "normal_reinforce"),
    "uniform_reparam": ("uniform", "uniform_reparam"),
    "uniform_reinforce": ("uniform", "uniform_reinforce"),
    "mvn_reparam": ("mvn", "multivariate_normal_reparam"),
    "mvn_diag_reparam": ("mvn_diag", "multivariate_normal_diag_reparam"),
    "mvn_reinforce": ("mvn", "multivariate_normal_reinforce"),
}
ENUM = {"flip_enum", "flip_enum_parallel", "categorical_enum_parallel"}
REPARAM = {"normal_reparam", "normal_reparam_vec", "uniform_reparam", "mvn_reparam", "mvn_diag_reparam"}


def _specs():
    """name -> (sites [(prim, params_fn(theta, vals))], tail(theta, vals), thetas, batched_via)"""
    import jax
    import jax.numpy as jnp

    S = {}
    w = jnp.where
    S["flip_enum"] = ([("flip_enum", lambda t, v: (t,))], lambda t, v: w(v[0], 2.0 * t, t**2), (0.3, 0.7))
    S["flip_enum_parallel"] = ([("flip_enum_parallel", lambda t, v: (t,))], lambda t, v: w(v[0], 3.0 + t, t**3), (0.3, 0.7))
    S["categorical_enum_parallel"] = ([("categorical_enum_parallel", lambda t, v: (t * jnp.asarray([0.0, 1.0, 2.0]),))], lambda t, v: (v[0] - 1.0) ** 2 * t + 0.5 * v[0], (0.3, 0.7))
    S["flip_mvd"] = ([("flip_mvd", lambda t, v: (t,))], lambda t, v: w(v[0], 3.0, t), (0.3, 0.7))
    S["flip_reinforce"] = ([("flip_reinforce", lambda t, v: (t,))], lambda t, v: w(v[0], 1.0 + t, -2.0 * t), (0.3, 0.7))
    S["geometric_reinforce"] = ([("geometric_reinforce", lambda t, v: (t,))], lambda t, v: v[0] * t + 0.1 * v[0] ** 2, (0.4, 0.7))
    S["normal_reparam_loc"] = ([("normal_reparam", lambda t, v: (t, 1.0))], lambda t, v: v[0] ** 2 + t * v[0], (0.3, -0.6))
    S["normal_reparam_scale"] = ([("normal_reparam", lambda t, v: (0.5, t))], lambda t, v: v[0] ** 3 + v[0] ** 2, (0.3, 0.9))
    S["normal_reinforce_loc"] = ([("normal_reinforce", lambda t, v: (t, 0.8))], lambda t, v: v[0] ** 2 + t, (0.3, -0.6))
    S["normal_reinforce_scale"] = ([("normal_reinforce", lambda t, v: (0.2, t))], lambda t, v: v[0] ** 2 * t + v[0], (0.5, 0.9))
    S["uniform_reparam"] = ([("uniform_reparam", lambda t, v: (t - 1.0, t + 1.0))], lambda t, v: v[0] ** 2 + v[0], (0.3, 0.7))
    S["uniform_reinforce_const_bounds"] = ([("uniform_reinforce", lambda t, v: (0.0, 1.0))], lambda t, v: t * v[0] ** 2 + t**2, (0.3, 0.7))
    cov = jnp.asarray([[1.0, 0.3], [0.3, 2.0]])
    S["mvn_reparam"] = ([("mvn_reparam", lambda t, v: (jnp.stack([t, 0.0 * t]), cov))], lambda t, v: v[0][0] * v[0][1] + v[0][0] ** 2, (0.3,))
    S["mvn_diag_reparam"] = ([("mvn_diag_reparam", lambda t, v: (jnp.stack([t, 1.0 + 0.0 * t]), jnp.stack([1.0 + 0.0 * t, t])))], lambda t, v: v[0][0] * v[0][1] + v[0][1] ** 2, (0.6,))
    S["mvn_reinforce"] = ([("mvn_reinforce", lambda t, v: (jnp.stack([t, 0.0 * t]), cov))], lambda t, v: v[0][0] ** 2 + v[0][1] * t, (0.3,))
    # array-valued sites whose parameters broadcast (scalar loc, vector scale and vice versa): the
    # coordinates must be independent draws -- the tail couples them multiplicatively
    S["normal_reparam_vec_scale"] = ([("normal_reparam_vec", lambda t, v: (t, jnp.asarray([0.5, 1.5])))], lambda t, v: v[0][0] * v[0][1] + v[0][0], (0.7,))
    S["normal_reparam_vec_loc"] = ([("normal_reparam_vec", lambda t, v: (t * jnp.asarray([1.0, -2.0]), 0.8))], lambda t, v: v[0][0] * v[0][1] + v[0][1] ** 2, (0.7,))
    S["normal_reinforce_vec"] = ([("normal_reinforce_vec", lambda t, v: (t * jnp.asarray([1.0, -2.0]), jnp.asarray([0.5, 1.5])))], lambda t, v: v[0][0] * v[0][1] + v[0][0], (0.7,))
    # ---- compositions (cross terms)
    S["reinforce_then_mvd"] = (
        [("normal_reinforce", lambda t, v: (t, 1.0)), ("flip_mvd", lambda t, v: (0.5 + 0.1 * v[0],))],
        lambda t, v: w(v[1], v[0], t * v[0] ** 2),
        (0.3,),
    )
    S["enum_then_reparam"] = (
        [("flip_enum", lambda t, v: (t,)), ("normal_reparam", lambda t, v: (w(v[0], 1.0, -1.0), t))],
        lambda t, v: v[1] ** 2 * t,
        (0.4, 0.7),
    )
    S["reparam_then_reinforce"] = (
        [("normal_reparam", lambda t, v: (t, 1.0)), ("flip_reinforce", lambda t, v: (0.4 + 0.1 * v[0],))],
        lambda t, v: w(v[1], v[0] ** 2, t),
        (0.3,),
    )
    S["mvd_then_reinforce"] = (
        [("flip_mvd", lambda t, v: (t,)), ("normal_reinforce", lambda t, v: (w(v[0], t, -t), 1.0))],
        lambda t, v: v[1] ** 2 + w(v[0], 1.0, 0.0),
        (0.3,),
    )
    S["reinforce_then_reinforce"] = (
        [("flip_reinforce", lambda t, v: (t,)), ("flip_reinforce", lambda t, v: (w(v[0], 0.8 * t, 0.2 + t / 2),))],
        lambda t, v: w(v[1], 2.0, -1.0) * w(v[0], t, 1.0),
        (0.3, 0.7),
    )
    S["enum_parallel_then_mvd"] = (
        [("flip_enum_parallel", lambda t, v: (t,)), ("flip_mvd", lambda t, v: (w(v[0], 0.9 * t, 0.5),))],
        lambda t, v: w(v[1], 2.0 * t, 1.0) + w(v[0], 0.5, 0.0),
        (0.3,),
    )
    # deterministic cond in the tail (predicate from theta), either branch
    S["reparam_cond_tail"] = (
        [("normal_reparam", lambda t, v: (t, 1.0))],
        lambda t, v: jax.lax.cond(t > 0.5, lambda x: x**2 * t, lambda x: 3.0 * x + t, v[0]),
        (0.3, 0.7),
    )
    S["reinforce_cond_tail"] = (
        [("flip_reinforce", lambda t, v: (t,))],
        lambda t, v: jax.lax.cond(t > 0.5, lambda b: w(b, t, 0.0), lambda b: w(b, 1.0, t * t), v[0]),
        (0.3, 0.7),
    )
    return S


def _batched_specs():
    """Batched sites under modular_vmap inside the expectation (handled separately)."""
    import jax.numpy as jnp

    return {
        "batched_flip_enum": ("flip_enum", lambda t: t * jnp.asarray([0.5, 1.0]), lambda t, b: (1.0 * b[0] + 2.0 * b[1]) ** 2 + t * b[0], (0.4, 0.8)),
        "batched_flip_mvd": ("flip_mvd", lambda t: t * jnp.asarray([0.5, 1.0]), lambda t, b: (1.0 * b[0] + 2.0 * b[1]) ** 2 * t, (0.4,)),
        "batched_flip_reinforce": ("flip_reinforce", lambda t: t * jnp.asarray([0.5, 1.0]), lambda t, b: (1.0 * b[0] - 2.0 * b[1]) ** 2 + t, (0.4,)),
    }


def _nodes():
    gh_t, gh_w = np.polynomial.hermite.hermgauss(6)
    gl_t, gl_w = np.polynomial.legendre.leggauss(6)
    return (gh_t, gh_w / np.sqrt(np.pi)), (0.5 * (gl_t + 1.0), 0.5 * gl_w)


def _exact(spec):
    """E(theta) as a plain JAX function (float64-free: float32 JAX, sums of <= few hundred terms)."""
    import jax
    import jax.numpy as jnp

    sites, tail = spec[0], spec[1]
    (gh_t, gh_w), (gl_t, gl_w) = _nodes()
    gh4_t, gh4_w = np.polynomial.hermite.hermgauss(4)
    gh4_w = gh4_w / np.sqrt(np.pi)

    def rec(theta, i, vals):
        if i == len(sites):
            return tail(theta, list(vals))
        prim, pf = sites[i]
        fam = PRIMS[prim][0]
        ps = pf(theta, list(vals))
        if fam == "bern":
            p = ps[0]
            return p * rec(theta, i + 1, vals + (jnp.asarray(True),)) + (1.0 - p) * rec(theta, i + 1, vals + (jnp.asarray(False),))
        if fam == "cat":
            pr = jax.nn.softmax(ps[0])
            return sum(pr[k] * rec(theta, i + 1, vals + (jnp.asarray(k),)) for k in range(pr.shape[0]))
        if fam == "geom":
            p = ps[0]
            return sum((1.0 - p) ** k * p * rec(theta, i + 1, vals + (jnp.asarray(float(k)),)) for k in range(GEOM_K))
        if fam == "normal":
            mu, s = ps
            return sum(float(wi) * rec(theta, i + 1, vals + (mu + s * np.sqrt(2.0) * float(ti),)) for ti, wi in zip(gh_t, gh_w))
        if fam == "normal_vec":
            mu, sd = jnp.broadcast_arrays(jnp.asarray(ps[0]), jnp.asarray(ps[1]))
            tot = 0.0
            for combo in itertools.product(zip(gh4_t, gh4_w), repeat=int(mu.shape[0])):
                z = jnp.asarray([c[0] for c in combo], jnp.float32)
                wgt = float(np.prod([c[1] for c in combo]))
                tot = tot + wgt * rec(theta, i + 1, vals + (mu + sd * np.sqrt(2.0) * z,))
            return tot
        if fam == "uniform":
            lo, hi = ps
            return sum(float(wi) * rec(theta, i + 1, vals + (lo + (hi - lo) * float(ti),)) for ti, wi in zip(gl_t, gl_w))
        if fam == "mvn":
            mean, cov = ps
            Lc = jnp.linalg.cholesky(cov)
            tot = 0.0
            for (t0, w0), (t1, w1) in itertools.product(zip(gh4_t, gh4_w), repeat=2):
                x = mean + Lc @ (np.sqrt(2.0) * jnp.asarray([t0, t1], jnp.float32))
                tot = tot + float(w0 * w1) * rec(theta, i + 1, vals + (x,))
            return tot
        if fam == "mvn_diag":
            loc, sc = ps
            tot = 0.0
            for (t0, w0), (t1, w1) in itertools.product(zip(gh4_t, gh4_w), repeat=2):
                x = loc + sc * (np.sqrt(2.0) * jnp.asarray([t0, t1], jnp.float32))
                tot = tot + float(w0 * w1) * rec(theta, i + 1, vals + (x,))
            return tot
        raise ValueError(fam)

    return lambda theta: rec(theta, 0, ())


def _build(spec):
    import genjax.adev as adev

    sites, tail = spec[0], spec[1]

    @adev.expectation
    def prog(theta):
        vals = []
        for prim, pf in sites:
            ps = pf(theta, vals)
            vals.append(getattr(adev, PRIMS[prim][1])(*ps))
        return tail(theta, vals)

    return prog


def _menu(ev, lane, ctx=None):
    """Menus for the estimators' internal draws: support + pmf, or quadrature nodes + weights."""
    from mc import gfi

    (gh_t, gh_w), (gl_t, gl_w) = _nodes()
    alias = {
        "ADEV:_bernoulli_keyful_sample": "Flip", "ADEV:FlipMVD": "Flip", "ADEV:FlipEnum": "Flip", "ADEV:FlipEnumParallel": "Flip",
        "ADEV:_normal_keyful_sample": "Normal", "ADEV:NormalREPARAM": "Normal", "ADEV:_uniform_keyful_sample": "Uniform", "ADEV:UniformREPARAM": "Uniform",
        "ADEV:_geometric_keyful_sample": "Geometric", "ADEV:CategoricalEnumParallel": "Categorical",
        "ADEV:_multivariate_normal_keyful_sample": "MultivariateNormal", "ADEV:MultivariateNormalREPARAM": "MultivariateNormal",
    }
    if ev.name in alias:
        import copy

        ev = copy.copy(ev)
        ev.name = alias[ev.name]
    if ev.name in ("Flip", "Categorical"):
        return gfi.std_menu(ev, lane)
    ps = gfi.lane_params(ev, lane) if ev.name in ("Normal", "Uniform", "MultivariateNormal") else [np.asarray(a) for a in ev.args]
    if ev.name == "Normal":
        mu, s = float(ps[0]), float(ps[1])
        return [(np.float32(mu + s * np.sqrt(2.0) * t), float(wi), f"GH node {j}") for j, (t, wi) in enumerate(zip(gh_t, gh_w))]
    if ev.name == "Uniform":
        lo, hi = float(ps[0]), float(ps[1])
        return [(np.float32(lo + (hi - lo) * t), float(wi), f"GL node {j}") for j, (t, wi) in enumerate(zip(gl_t, gl_w))]
    if ev.name == "MultivariateNormal":
        mean, cov = np.asarray(ps[0], np.float64), np.asarray(ps[1], np.float64)
        Lc = np.linalg.cholesky(cov)
        g4t, g4w = np.polynomial.hermite.hermgauss(4)
        g4w = g4w / np.sqrt(np.pi)
        out = []
        for (t0, w0), (t1, w1) in itertools.product(zip(g4t, g4w), repeat=2):
            out.append(((mean + Lc @ (np.sqrt(2.0) * np.asarray([t0, t1]))).astype(np.float32), float(w0 * w1), f"GH2 ({t0:.2f},{t1:.2f})"))
        return out
    if ev.name == "Geometric":
        a0 = ev.args[0] if ev.args else ev.kwargs.get("probs")
        if a0 is None:
            raise KeyError(f"geometric site with parameters {ev.brief()}: expected a success probability")
        p = float(np.asarray(a0).reshape(-1)[lane] if np.ndim(a0) else a0)
        return [(np.float32(k), (1 - p) ** k * p, str(k)) for k in range(GEOM_K)]
    raise KeyError(f"no menu for the estimator's internal sampler {ev.name}")


def work(item, tier, seed):
    import jax
    import jax.numpy as jnp
    from genjax import seed as gseed, modular_vmap
    from genjax.core import handler_stack
    import genjax.adev as adev
    from mc import env, tree, gfi

    env.install()
    res = H.Result()
    name, method = item
    key = jax.random.key(seed * 101 + 3)
    if name in _batched_specs():
        prim, pfun, btail, thetas = _batched_specs()[name]

        @adev.expectation
        def prog(theta):
            b = modular_vmap(lambda p: getattr(adev, PRIMS[prim][1])(p), in_axes=(0,))(pfun(theta))
            return btail(theta, b)

        def exact(theta):
            ps = pfun(theta)
            tot = 0.0
            for combo in itertools.product((True, False), repeat=int(ps.shape[0])):
                pr = 1.0
                for pi, c in zip(ps, combo):
                    pr = pr * (pi if c else 1.0 - pi)
                tot = tot + pr * btail(theta, jnp.asarray(combo))
            return tot

        sites = [(prim, None)]
    else:
        spec = _specs()[name]
        prog = _build(spec)
        exact = _exact(spec)
        thetas = spec[2]
        sites = spec[0]
    enum_only = all(p in ENUM for p, _ in sites) and name not in _batched_specs()
    sampled = [p for p, _ in sites if p not in ENUM]
    pathwise = len(sampled) == 1 and sampled[0] in REPARAM and name not in _batched_specs()
    if method == "estimate":
        f = lambda t: prog.estimate(t)
        want_fn = exact
    elif method == "grad":
        f = lambda t: prog.grad_estimate(t)
        want_fn = jax.grad(exact)
    else:
        f = lambda t: prog.jvp_estimate(adev.Dual(t, jnp.ones_like(t))).tangent
        want_fn = jax.grad(exact)
    try:
        jf = jax.jit(gseed(f))
        jf(key, jnp.float32(thetas[0]))
    except Exception as ex:
        handler_stack.clear()
        res.violate(PROP, f"raises:{name}:{method}", error=f"{type(ex).__name__}: {str(ex)[:400]}")
        res.states += 1
        res.transitions += 1
        return res
    for theta in thetas if tier == "thorough" else thetas[:1] if len(sites) > 1 else thetas:
        th = jnp.float32(theta)
        want = float(np.asarray(want_fn(th)))
        det0 = {"program": name, "method": method, "theta": theta}

        def run(D):
            out, evs = env.run_recorded(jf, key, th, mode="script", decisions=D)
            res.evaluations += 1
            return out, evs

        acc = [0.0]
        vals = set()
        leaves = []

        def on_leaf(leaf):
            res.states += 1
            res.validated += 1
            v = float(np.asarray(leaf.out))
            acc[0] += leaf.prob * v
            vals.add(round(v, 5))
            if len(leaves) < 3:
                leaves.append(leaf)
            if enum_only and leaf.events:
                res.violate(PROP, f"enumeration-primitive-samples:{name}", events=[e.brief() for e in leaf.events][:3], **det0)
            if pathwise and method != "estimate":
                # d/dtheta of the program with the sampled site replaced by g(eps; theta)
                eps_ev = [e for e in leaf.events]
                if len(eps_ev) == 1:
                    eps = jnp.asarray(eps_ev[0].value)
                    pw = _pathwise(spec, eps)
                    ref = float(np.asarray(jax.grad(pw)(th)))
                    if not H.close(v, ref, rtol=2e-4, atol=2e-4):
                        res.violate(PROP, f"pathwise-derivative:{name}", estimate=v, reference=ref, eps=np.asarray(eps), **det0)
                else:
                    # an enumeration site before the reparameterised one evaluates its continuation
                    # once per outcome, each with its own noise draw: no single eps to compare with
                    res.notes["pathwise_skipped_several_noise_draws"] = res.notes.get("pathwise_skipped_several_noise_draws", 0) + 1
            res.case(name, method, theta, tuple(c for _k, _l, c in leaf.path))
            if not res.samples:
                res.add_sample(dict(det0, path=tree.path_json(leaf)[:6], value=v, exact=want))

        st = tree.explore(run, _menu, on_leaf, max_leaves=20000 if tier == "quick" else 100000, check_determinism=False)
        res.transitions += st.nodes
        res.capped |= st.capped
        if st.capped:
            continue
        if abs(st.total_prob - 1.0) > 1e-4:
            res.violate(PROP, f"tree-mass:{name}:{method}", total=st.total_prob, **det0)
            continue
        if not H.close(acc[0], want, rtol=1e-3, atol=1e-3):
            res.violate(PROP, f"biased:{name}:{method}", expectation_of_estimator=acc[0], exact=want, leaves=st.leaves, **det0)
        if enum_only and (st.leaves != 1 or len(vals) != 1):
            res.violate(PROP, f"enumeration-not-zero-variance:{name}:{method}", distinct_values=len(vals), **det0)
        # eager seeded replay of a few leaves
        ef = gseed(f)
        for leaf in leaves[: (1 if tier == "quick" else 3)]:
            try:
                out, _e = env.run_recorded(ef, key, th, mode="script", decisions=leaf.D)
                res.evaluations += 1
                res.transitions += 1
                if not H.close(float(np.asarray(out)), float(np.asarray(leaf.out)), rtol=1e-4, atol=1e-5):
                    res.violate(PROP, f"eager-vs-jit:{name}:{method}", eager=float(np.asarray(out)), jit=float(np.asarray(leaf.out)), **det0)
            except Exception as ex:
                handler_stack.clear()
                res.violate(PROP, f"eager-raises:{name}:{method}", error=f"{type(ex).__name__}: {str(ex)[:300]}", **det0)
    return res


def _pathwise(spec, eps):
    """theta -> E over enumeration sites of tail with the single reparameterised site set to g(eps; theta)."""
    import jax
    import jax.numpy as jnp

    sites, tail = spec[0], spec[1]

    def rec(theta, i, vals):
        if i == len(sites):
            return tail(theta, list(vals))
        prim, pf = sites[i]
        fam = PRIMS[prim][0]
        ps = pf(theta, list(vals))
        if prim in REPARAM:
            if fam in ("normal", "normal_vec"):
                x = ps[0] + ps[1] * eps
            elif fam == "uniform":
                x = ps[0] + (ps[1] - ps[0]) * eps
            elif fam == "mvn":
                x = ps[0] + jnp.linalg.cholesky(ps[1]) @ eps
            else:
                x = ps[0] + ps[1] * eps
            return rec(theta, i + 1, vals + (x,))
        if fam == "bern":
            p = ps[0]
            return p * rec(theta, i + 1, vals + (jnp.asarray(True),)) + (1.0 - p) * rec(theta, i + 1, vals + (jnp.asarray(False),))
        if fam == "cat":
            pr = jax.nn.softmax(ps[0])
            return sum(pr[k] * rec(theta, i + 1, vals + (jnp.asarray(k),)) for k in range(pr.shape[0]))
        raise ValueError(prim)

    return lambda theta: rec(theta, 0, ())


def items(tier):
    its = []
    for n in list(_specs()) + list(_batched_specs()):
        for m in ("estimate", "grad") + (("jvp",) if tier == "thorough" or n in ("flip_mvd", "normal_reinforce_loc", "enum_then_reparam") else ()):
            its.append((n, m))
    return its


def main(tier, seed):
    t0 = time.time()
    its = items(tier)
    only = os.environ.get("VERIF_ONLY")
    if only:
        its = [it for it in its if only in str(it)]
    res, errors = H.fan_out("checks.c11", "work", its, tier, seed)
    rule = (
        "26 expectation programs (13 primitives alone, 6 two-site compositions, 2 cond tails, 3 batched under modular_vmap) x {estimate, grad_estimate[, jvp_estimate]} x "
        "theta values: full choice tree of the estimators' internal draws (support / 6-point Gauss-Hermite and Gauss-Legendre nodes / 4x4 tensor nodes / geometric 0..89) under "
        "jit(seed(.)); states = leaves, transitions = real executions"
    )
    return H.finish(
        PROP, tier, seed, "model_checking", res, errors, t0, rule,
        ["continuous internal draws are integrated by Gaussian quadrature, exact because every integrand (tail x score) is a polynomial of degree <= 2n-1", "geometric support truncated at 90 (tail mass < 1e-13 for p >= 0.3)", "uniform_reinforce is explored with parameter-free bounds only: a score-function estimator cannot see a parameter-dependent support"],
        {"work_items": len(its)},
    )


def replay(path):
    import json

    j = json.load(open(path))
    print(json.dumps(j, indent=1)[:3000])
    os.environ["VERIF_ONLY"] = f"'{j['detail'].get('program')}'"
    return main("quick", int(os.environ.get("VERIF_SEED", "0") or 0))
