"""C03  update returns the density ratio, keeps unconstrained choices, and is invertible.

No randomness in update: Cartesian enumeration on the real code.
program x old trace (corner traces from scripted simulate, so Cond traces carry real hidden
draws) x (old args -> new args) pairs (incl. pairs flipping Cond predicates and changing
Scan/Vmap inputs) x EVERY subset S of the leaf paths x new values from another corner.
Oracle: new choices == old overwritten on S (bit-identical elsewhere); coherent under the new
args; weight == ref.logp(new; new args) - ref.logp(old; old args) (also across branch
switches); discard holds the old *visible* values on S; update(new, discard, old args)
restores the old choices with weight -w; Trace.update(constraints) == explicit call.
"""

from __future__ import annotations

import itertools
import os
import time

import numpy as np

from mc import harness as H

PROP = "C03"


def work(item, tier, seed):
    import jax
    import jax.numpy as jnp
    from genjax.core import handler_stack
    from mc import env, gfi
    from mc import ref as R
    from mc import lang as L
    from mc.family import FAMILY, ALT_ARGS
    from checks.c02 import _subsets

    env.install()
    res = H.Result()
    pname, chunk, nchunks = item
    if pname == "@root":
        # Scan / Vmap / Cond objects edited directly (not as sub-calls): recorded arguments + coherence
        gfi.check_root_edits(res, PROP, "update", seed)
        return res
    prog, argsl, _t = FAMILY[pname]
    fn = L.compile_prog(prog)
    key = jax.random.key(seed * 15485863 + 3)
    paths = R.leaf_paths(prog)
    all_args = list(argsl) + list(ALT_ARGS.get(pname, []))
    subsets = _subsets(paths, tier)
    kmax = 5 if tier == "quick" else 7
    if len(paths) > kmax:
        subsets = [S for S in subsets if len(S) <= 2 or len(S) >= len(paths) - 1]
    subsets = [S for i, S in enumerate(subsets) if i % nchunks == chunk]
    # "alt" alternates first/last menu entries along the run, so that the hidden branch of a Cond holds
    # draws that differ from the visible ones (in the two pure corners they coincide)
    picks = (0, -1, "alt") if (tier != "quick" or "cond" in pname or "mix" in pname) else (0, -1)
    raised = set()
    for oi, old_args in enumerate(argsl):
        jold = tuple(jnp.asarray(a) for a in old_args)
        try:
            olds = gfi.corner_traces(fn, key, jold, picks, res)
        except Exception as ex:
            handler_stack.clear()
            res.violate(PROP, f"simulate-raises:{pname}", program=pname, error=f"{type(ex).__name__}: {str(ex)[:300]}")
            continue
        for ti, old_tr in enumerate(olds):
            old_ch = gfi.np_choices(old_tr)
            old_flat = R.flatten(old_ch)
            try:
                old_ref = R.run(prog, old_args, old_ch)
            except Exception as ex:
                res.violate(PROP, f"old-trace-malformed:{pname}", error=str(ex)[:200])
                continue
            # new values come from the other corner trace (same program, any args)
            donor = gfi.np_choices(olds[(ti + 1) % len(olds)])
            donor_flat = R.flatten(donor)
            for ni, new_args in enumerate(all_args):
                jnew = tuple(jnp.asarray(a) for a in new_args)
                for S in subsets:
                    for how in (("dict", "None") if not S else ("dict",)):
                        sigS = "+".join("/".join(p) for p in S) or ("None" if how == "None" else "{}")
                        cons = None if how == "None" else R.unflatten({p: donor_flat[p] for p in S})
                        jcons = None if cons is None else jax.tree_util.tree_map(jnp.asarray, cons)
                        det = dict(program=pname, old_args=old_args, new_args=new_args, old_choices=old_flat, constraints=R.flatten(cons) if cons else None)
                        res.transitions += 1
                        try:
                            new_tr, w, discard = fn.update(old_tr, jcons, *jnew)
                            res.evaluations += 1
                        except Exception as ex:
                            handler_stack.clear()
                            if (sigS,) not in raised:
                                raised.add((sigS,))
                                res.violate(PROP, f"update-raises:{pname}:{sigS}", error=f"{type(ex).__name__}: {str(ex)[:300]}", **det)
                            continue
                        w = float(np.asarray(w))
                        new_flat = R.flatten(gfi.np_choices(new_tr))
                        want_flat = dict(old_flat)
                        for p in S:
                            want_flat[p] = donor_flat[p]
                        bad = [p for p in want_flat if not H.bits_equal(new_flat.get(p), want_flat[p])]
                        if bad:
                            res.violate(PROP, f"choices:{pname}:{sigS}", address=bad[0], got=new_flat.get(bad[0]), want=want_flat[bad[0]], **det)
                        ro = gfi.check_coherent(res, PROP, f"update[{sigS}]", pname, prog, new_args, {}, new_tr, detail=det)
                        res.validated += 1
                        res.states += 1
                        res.case(pname, oi, ti, ni, sigS)
                        if ro is None:
                            continue
                        want_w = ro.logp - old_ref.logp
                        if not H.close(w, want_w):
                            res.violate(PROP, f"weight:{pname}:{sigS}", weight=w, reference=want_w, new_logp=ro.logp, old_logp=old_ref.logp, **det)
                        dflat = R.flatten(R.to_numpy(discard)) if discard is not None else {}
                        for p in S:
                            if p not in dflat or dflat[p] is None or not H.bits_equal(dflat[p], old_flat[p]):
                                res.violate(PROP, f"discard:{pname}:{sigS}", address=p, discard=dflat.get(p), old_visible=old_flat[p], **det)
                                break
                        # round trip with the discard and the old arguments
                        try:
                            back_tr, wb, _d2 = fn.update(new_tr, discard, *jold)
                            res.evaluations += 1
                            res.transitions += 1
                            back_flat = R.flatten(gfi.np_choices(back_tr))
                            badb = [p for p in old_flat if not H.bits_equal(back_flat.get(p), old_flat[p])]
                            if badb:
                                res.violate(PROP, f"roundtrip-choices:{pname}:{sigS}", address=badb[0], got=back_flat.get(badb[0]), want=old_flat[badb[0]], **det)
                            # a move to a zero-density trace (forward weight -inf, already compared with the
                            # reference) has no defined backward ratio (finite/0): only the choices are compared
                            if np.isfinite(w) and not H.close(float(np.asarray(wb)), -w):
                                res.violate(PROP, f"roundtrip-weight:{pname}:{sigS}", forward=w, backward=float(np.asarray(wb)), **det)
                            gfi.check_coherent(res, PROP, f"update-back[{sigS}]", pname, prog, old_args, {}, back_tr, detail=det)
                        except Exception as ex:
                            handler_stack.clear()
                            res.violate(PROP, f"roundtrip-raises:{pname}:{sigS}", error=f"{type(ex).__name__}: {str(ex)[:300]}", **det)
                        # convenience Trace.update re-uses the stored args
                        if ni == oi and cons is not None and len(S) in (1, len(paths)):
                            try:
                                c_tr, cw, _cd = old_tr.update(jcons)
                                res.evaluations += 1
                                res.transitions += 1
                                if not (gfi.tree_bits_equal(R.to_numpy(c_tr.get_choices()), R.to_numpy(new_tr.get_choices())) and H.close(float(np.asarray(cw)), w, rtol=1e-6, atol=1e-6)):
                                    res.violate(PROP, f"trace-update-convenience:{pname}:{sigS}", weight=float(np.asarray(cw)), explicit_weight=w, **det)
                            except Exception as ex:
                                handler_stack.clear()
                                res.violate(PROP, f"trace-update-raises:{pname}:{sigS}", error=f"{type(ex).__name__}: {str(ex)[:300]}", **det)
                        if res.states % 301 == 1:
                            res.add_sample({"program": pname, "old_args": old_args, "new_args": new_args, "constrained": [list(p) for p in S], "weight": w, "reference": want_w})
    return res


def items(tier):
    from mc.family import FAMILY, programs
    from mc import ref as R

    its = []
    for pname in programs(tier):
        prog, argsl, _t = FAMILY[pname]
        k = len(R.leaf_paths(prog))
        nch = 1 if k <= 2 else 2 if k == 3 else 4
        for c in range(nch):
            its.append((pname, c, nch))
    its.append(("@root", 0, 1))
    return its


def main(tier, seed):
    t0 = time.time()
    its = items(tier)
    only = os.environ.get("VERIF_ONLY")
    if only:
        its = [it for it in its if only in str(it)]
    res, errors = H.fan_out("checks.c03", "work", its, tier, seed)
    rule = (
        "program x corner old traces x (old args, new args) pairs (family args + ALT_ARGS: flipped Cond predicates, changed Scan/Vmap inputs) x "
        "every subset S of leaf paths (2^k, k<=5 quick/7 thorough) x new values from another corner: update, update-back with the discard, Trace.update; "
        "states = updates checked against the reference, transitions = real update calls"
    )
    return H.finish(PROP, tier, seed, "model_checking", res, errors, t0, rule, ["update draws nothing: the enumeration is Cartesian; continuous values from the menu grid"], {"work_items": len(its)})


def replay(path):
    import json

    j = json.load(open(path))
    print(json.dumps(j, indent=1)[:3000])
    os.environ["VERIF_ONLY"] = f"'{j['detail'].get('program')}'"
    return main("quick", int(os.environ.get("VERIF_SEED", "0") or 0))
