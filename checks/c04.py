"""C04  regenerate resamples exactly the selection and returns the MH weight.

program x old trace (corners) x argument pairs that keep Cond predicates fixed x selection
expressions over the program's addresses (strings, tuples, dicts, all, none, |, ^, ~; one
representative per denotation class and constructor kind) x the full choice tree of the
fresh draws under jit(seed(regenerate)).
Leaf oracle: the call returns (definedness, incl. Scan/Vmap sub-calls); unselected choices
bit-identical; sampler events == exactly the selected sites with conditional-prior parameters
under the *new* parents; coherent trace; weight == delta log joint - delta log prior of the
selected choices whenever no Cond branch switched; == 0 with the trace unchanged for the empty
selection under unchanged args; discard == old values of exactly the resampled addresses.
"""

from __future__ import annotations

import itertools
import os
import time

import numpy as np

from mc import harness as H

PROP = "C04"


def selection_exprs(paths, tier):
    """Selection expressions over the program's own address paths."""
    from mc import selref as S

    tops = sorted({p[0] for p in paths})
    atoms = [("none",), ("all",)]
    atoms += [("str", t) for t in tops]
    prefixes = sorted({p[:i] for p in paths for i in range(1, len(p) + 1)})
    atoms += [("tup", pre) for pre in prefixes]
    for pre in prefixes:
        if len(pre) >= 2:
            atoms.append(("dict", ((pre[0], ("tup", pre[1:]) if len(pre) > 2 else ("str", pre[1])),)))
    atoms.append(("dict", tuple((t, ("all",)) for t in tops[:2])))
    atoms.append(("str", "zz"))  # an address the program does not have
    exprs = list(atoms)
    exprs += [("not", a) for a in atoms]
    for a, b in itertools.combinations(atoms, 2):
        exprs.append(("or", a, b))
        exprs.append(("and", ("not", a), b))
        exprs.append(("or", a, ("not", b)))
        exprs.append(("or", ("not", a), b))
        exprs.append(("and", a, ("not", b)))
    exprs += [("not", ("not", a)) for a in atoms]
    allp = list(paths)
    # one representative per (denotation, constructor skeleton): the same set of addresses
    # written in every syntactic shape (the remainder threading differs per shape)
    from checks.c16 import _shape_sig

    seen = {}
    for x in exprs:
        k = (tuple(S.den(x, p) for p in allp), _shape_sig(x))
        seen.setdefault(k, x)
    reps = list(seen.values())
    if tier == "quick":
        # one per denotation class, rotating through constructor kinds for syntactic variety
        byden = {}
        for e in reps:
            k = tuple(S.den(e, p) for p in allp)
            byden.setdefault(k, []).append(e)
        out = []
        for i, (k, es) in enumerate(sorted(byden.items())):
            # quick: per denotation class, up to 3 syntactic shapes, preferring compound ones
            es = sorted(es, key=lambda x: -len(_shape_sig(x)))
            out += [es[(i + j) % len(es)] for j in range(min(3, len(es)))]
        uniq = []
        for x in out:
            if x not in uniq:
                uniq.append(x)
        return uniq
    return reps


def work(item, tier, seed):
    import jax
    import jax.numpy as jnp
    from genjax import seed as gseed
    from genjax.core import handler_stack
    from mc import env, tree, gfi
    from mc import ref as R
    from mc import lang as L
    from mc import selref as S
    from mc.family import FAMILY, ALT_ARGS

    env.install()
    res = H.Result()
    pname, chunk, nchunks = item
    if pname == "@root":
        # Scan / Vmap / Cond objects edited directly (not as sub-calls): recorded arguments + coherence
        gfi.check_root_edits(res, PROP, "regenerate", seed)
        return res
    prog, argsl, _t = FAMILY[pname]
    fn = L.compile_prog(prog)
    key = jax.random.key(seed * 32452843 + 9)
    paths = R.leaf_paths(prog)
    sels = selection_exprs(paths, tier)
    sels = [e for i, e in enumerate(sels) if i % nchunks == chunk]
    all_args = list(argsl) + list(ALT_ARGS.get(pname, []))
    raised = set()
    regen_cache = {}
    for oi, old_args in enumerate(argsl):
        jold = tuple(jnp.asarray(a) for a in old_args)
        try:
            olds = gfi.corner_traces(fn, key, jold, (0, -1) if tier == "thorough" else (0,) if oi else (-1,), res)
        except Exception as ex:
            handler_stack.clear()
            res.violate(PROP, f"simulate-raises:{pname}", program=pname, error=f"{type(ex).__name__}: {str(ex)[:300]}")
            continue
        for ti, old_tr in enumerate(olds):
            old_ch = gfi.np_choices(old_tr)
            old_flat = R.flatten(old_ch)
            old_ref = R.run(prog, old_args, old_ch)
            old_plp = R.path_logp(old_ref)
            for ni, new_args in enumerate(all_args):
                if ni != oi and tier == "quick" and ni < len(argsl):
                    continue
                jnew = tuple(jnp.asarray(a) for a in new_args)
                # the claim ranges over argument changes that keep Cond predicates fixed
                try:
                    if [x[2] for x in R.run(prog, new_args, old_ch).preds] != [x[2] for x in old_ref.preds]:
                        res.notes["arg_pairs_skipped_predicate_flip"] = res.notes.get("arg_pairs_skipped_predicate_flip", 0) + 1
                        continue
                except Exception:
                    continue
                same_args = gfi.tree_bits_equal(tuple(map(np.asarray, new_args)), tuple(map(np.asarray, old_args)))
                for e in sels:
                    sel = S.build(e)
                    den = {p for p in paths if S.den(e, p)}
                    sig = S.show(e)
                    det = dict(program=pname, old_args=old_args, new_args=new_args, selection=sig, old_choices=old_flat)
                    try:
                        # one compiled function per selection expression, shared by all traces / argument pairs
                        if sig not in regen_cache:
                            regen_cache[sig] = jax.jit(lambda k, t, *a, sel=sel: gseed(fn.regenerate)(k, t, sel, *a))
                        regen = regen_cache[sig]
                        env.run_recorded(regen, key, old_tr, *jnew)
                    except Exception as ex:
                        handler_stack.clear()
                        kind = "scan" if "Scan" in str(type(ex)) else type(ex).__name__
                        if (pname, type(ex).__name__) not in raised:
                            raised.add((pname, type(ex).__name__))
                            res.violate(PROP, f"regenerate-raises:{pname}:{type(ex).__name__}", error=f"{type(ex).__name__}: {str(ex)[:300]}", **det)
                        res.states += 1
                        res.transitions += 1
                        continue

                    def run(D, regen=regen, jnew=jnew):
                        out, evs = env.run_recorded(regen, key, old_tr, *jnew, mode="script", decisions=D)
                        res.evaluations += 1
                        return out, evs

                    def on_leaf(leaf, den=den, sig=sig, det=det, new_args=new_args, same_args=same_args):
                        new_tr, w, discard = leaf.out
                        w = float(np.asarray(w))
                        d2 = dict(det, decisions=tree.D_json(leaf.D))
                        res.states += 1
                        res.validated += 1
                        new_flat = R.flatten(gfi.np_choices(new_tr))
                        for p in paths:
                            if p not in den and not H.bits_equal(new_flat.get(p), old_flat[p]):
                                res.violate(PROP, f"unselected-changed:{pname}", address=p, old=old_flat[p], new=new_flat.get(p), **d2)
                                break
                        ro = gfi.check_coherent(res, PROP, "regenerate", pname, prog, new_args, {}, new_tr, detail=d2)
                        if ro is None:
                            return
                        exp_sites = [s for s in ro.sites if s.path in den]
                        gfi.check_events(res, PROP, "regenerate", pname, leaf.events, exp_sites, [s for s in ro.optional if s.path in den], detail=dict(d2, new_choices=new_flat))
                        switched = [x[2] for x in ro.preds] != [x[2] for x in old_ref.preds]
                        if not switched:
                            plp = R.path_logp(ro)
                            want = (ro.logp - old_ref.logp) - (sum(plp[p] for p in den) - sum(old_plp[p] for p in den))
                            if not H.close(w, want):
                                res.violate(PROP, f"weight:{pname}", weight=w, reference=want, new_choices=new_flat, **d2)
                        else:
                            res.notes["branch_switch_leaves_weight_not_claimed"] = res.notes.get("branch_switch_leaves_weight_not_claimed", 0) + 1
                        if not den and same_args:
                            if w != 0.0 or not gfi.tree_bits_equal(R.to_numpy(new_tr.get_choices()), R.to_numpy(old_tr.get_choices())) or not H.close(float(np.asarray(new_tr.get_score())), float(np.asarray(old_tr.get_score())), rtol=1e-6, atol=1e-6):
                                res.violate(PROP, f"empty-selection-not-identity:{pname}", weight=w, **d2)
                        dflat = {p: v for p, v in (R.flatten(R.to_numpy(discard)).items() if discard is not None else []) if v is not None}
                        for p in den:
                            if p not in dflat or not H.bits_equal(dflat[p], old_flat[p]):
                                res.violate(PROP, f"discard-missing-old-value:{pname}", address=p, discard=dflat.get(p), old=old_flat[p], **d2)
                                break
                        extra = [p for p in dflat if p not in den]
                        if extra:
                            res.violate(PROP, f"discard-has-unselected:{pname}", address=extra[0], **d2)
                        res.case(pname, oi, ti, ni, sig, gfi.outcome_key(new_flat))
                        if res.states % 701 == 1:
                            res.add_sample({"program": pname, "selection": sig, "selected": [list(p) for p in sorted(den)], "path": tree.path_json(leaf), "weight": w})

                    leaves_seen = []
                    _on_leaf = on_leaf

                    def on_leaf2(leaf, _on_leaf=_on_leaf, leaves_seen=leaves_seen):
                        _on_leaf(leaf)
                        if len(leaves_seen) < 2:
                            leaves_seen.append(leaf)
                        else:
                            leaves_seen[-1] = leaf

                    st = tree.explore(run, gfi.std_menu, on_leaf2, max_leaves=5000 if tier == "quick" else 50000, check_determinism=False)
                    # eager replay (no jit) of the first and last leaf
                    for leaf in leaves_seen[: (1 if tier == "quick" else 2)]:
                        try:
                            (etr, ew, _ed), _evs = env.run_recorded(lambda k, t, *a: gseed(fn.regenerate)(k, t, sel, *a), key, old_tr, *jnew, mode="script", decisions=leaf.D)
                            res.evaluations += 1
                            res.transitions += 1
                            jtr, jw, _jd = leaf.out
                            if not gfi.tree_bits_equal(R.to_numpy(etr.get_choices()), R.to_numpy(jtr.get_choices())):
                                res.violate(PROP, f"eager-vs-jit-choices:{pname}", decisions=tree.D_json(leaf.D), **det)
                            if not H.close(np.asarray(ew), np.asarray(jw), rtol=1e-5, atol=1e-5):
                                res.violate(PROP, f"eager-weight:{pname}", eager_weight=np.asarray(ew), jit_weight=np.asarray(jw), decisions=tree.D_json(leaf.D), **det)
                        except Exception as ex:
                            handler_stack.clear()
                            res.violate(PROP, f"regenerate-eager-raises:{pname}", error=f"{type(ex).__name__}: {str(ex)[:300]}", **det)
                            break
                    res.transitions += st.nodes
                    res.capped |= st.capped
                    if not st.capped and abs(st.total_prob - 1.0) > 1e-6:
                        res.violate(PROP, f"tree-mass:{pname}", total=st.total_prob, **det)
    return res


def items(tier):
    from mc.family import FAMILY, QUICK_GENERATED, programs, tree_size
    from mc import ref as R

    its = []
    # programs whose full choice tree exceeds 5000 leaves are explored by C01/C08 only (every subset /
    # selection multiplies the tree)
    for pname in programs(tier, max_tree=5000):
        if "[" in pname and pname not in QUICK_GENERATED and (pname.count("[") > 1 or True):  # thorough C04 keeps to the hand-written family + the quick generated programs (hours otherwise)
            continue  # generated compositions: depth 1 with small trees here; all of them in C01 / C03
        prog, argsl, _t = FAMILY[pname]
        k = len(R.leaf_paths(prog))
        nch = 1 if k <= 2 else 2 if k == 3 else 4
        if tier == "thorough":
            nch *= 4  # hundreds of selection shapes per program: finer items keep 16 workers busy to the end
        for c in range(nch):
            its.append((pname, c, nch))
    its.append(("@root", 0, 1))
    return its


def main(tier, seed):
    t0 = time.time()
    its = items(tier)
    only = os.environ.get("VERIF_ONLY")
    if only:
        its = [it for it in its if only in str(it)]
    res, errors = H.fan_out("checks.c04", "work", its, tier, seed)
    rule = (
        "program x corner old traces x (old args, new args) x selection expressions over the program's addresses (atoms + ~, |, ^; one per "
        "denotation class quick / per (class, constructor) thorough) x full choice tree of the resampled sites under jit(seed(regenerate)); "
        "states = leaves, transitions = real executions"
    )
    return H.finish(PROP, tier, seed, "model_checking", res, errors, t0, rule, ["weight identity is claimed only on leaves where no Cond predicate changed (as the property states)", "continuous sites answered from a fixed grid"], {"work_items": len(its)})


def replay(path):
    import json

    j = json.load(open(path))
    print(json.dumps(j, indent=1)[:3000])
    os.environ["VERIF_ONLY"] = f"'{j['detail'].get('program')}'"
    return main("quick", int(os.environ.get("VERIF_SEED", "0") or 0))
