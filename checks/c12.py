"""C12  Resampling copies particles faithfully, preserves the estimate, and is unbiased.

Particle collections whose every trace leaf encodes its lane id; log-weight vectors: ALL
vectors over {-inf, log 1/8, log 1/4, log 1/2, 0} with a finite entry (N<=3 quick, N<=4
thorough) plus near-uniform and 1e-6-degenerate ones; stale `diagnostic_weights` and a
non-zero running estimate on purpose; also collections produced by real init / a previous
resample / rejuvenate (histories).
 categorical: full choice tree of the N ancestor draws (all N^N index tuples with positive
   probability), reference pmf = normalised weights.
 systematic: the ancestor vector is piecewise constant in the offset u; every interval
   between consecutive analytic breakpoints u = N*c_j - i in (0,1) is visited (midpoint and
   both near-edges) -- exhaustive over all u in (0,1).
Oracle: same N; each output particle = exact copy of ONE input particle on every leaf;
log weights 0; log_marginal_likelihood() unchanged; diagnostic weights == normalised
pre-weights; sum P*copies_i == N*w_i; systematic copies in {floor,ceil}(N*w_i) on every interval.
"""

from __future__ import annotations

import itertools
import math
import os
import time

import numpy as np

from mc import harness as H

PROP = "C12"
LEVELS = (-np.inf, math.log(1 / 8), math.log(1 / 4), math.log(1 / 2), 0.0)


def weight_vectors(N, tier):
    out = []
    for c in itertools.product(LEVELS, repeat=N):
        if any(np.isfinite(c)):
            out.append(np.asarray(c, np.float32))
    if N >= 2:
        out.append(np.asarray([0.0] * (N - 1) + [1e-4], np.float32))  # near uniform
        out.append(np.asarray([0.0] + [math.log(1e-6)] * (N - 1), np.float32))  # degenerate
        out.append(np.asarray([-3.0 - 0.37 * i for i in range(N)], np.float32))  # unnormalised, generic
        out.append(np.asarray([5.0 + 0.11 * i * i for i in range(N)], np.float32))
    return out


def _model():
    from genjax import gen, normal

    @gen
    def inner():
        z = normal(0.0, 1.0) @ "z"
        return z

    @gen
    def model(a):
        x = normal(a, 1.0) @ "x"
        y = inner() @ "y"
        return x + y

    return model


def _particles(N, lw, diag, lme):
    """Hand-built collection: leaf k of lane i holds 100*k + i (all leaves, incl. args)."""
    import jax.numpy as jnp
    from genjax import const
    from genjax.core import Tr
    from genjax.inference.smc import ParticleCollection

    lanes = np.arange(N, dtype=np.float32)
    model = _model()
    inner_tr = Tr(model, ((), {}), {"z": jnp.asarray(300 + lanes)}, jnp.asarray(400 + lanes), jnp.asarray(500 + lanes))
    tr = Tr(
        model,
        ((jnp.asarray(100 + lanes),), {}),
        {"x": jnp.asarray(200 + lanes), "y": inner_tr},
        jnp.asarray(600 + lanes),
        jnp.asarray(700 + lanes),
    )
    return ParticleCollection(traces=tr, log_weights=jnp.asarray(lw), diagnostic_weights=jnp.asarray(diag), n_samples=const(N), log_marginal_estimate=jnp.asarray(lme, jnp.float32))


def _sources(traces, N):
    """Per output lane: the set of source ids decoded from every leaf."""
    import jax

    leaves = [np.asarray(l) for l in jax.tree_util.tree_leaves(traces)]
    src = []
    for j in range(N):
        ids = set()
        for l in leaves:
            ids.add(int(round(float(l[j]))) % 100)
        src.append(ids)
    return src, [l.shape for l in leaves]


def _ref(lw, lme, N):
    lw64 = np.asarray(lw, np.float64)
    m = np.max(lw64[np.isfinite(lw64)])
    lse = m + np.log(np.sum(np.exp(lw64 - m)))
    w = np.exp(lw64 - lse)
    return w, lw64 - lse, lme + lse - np.log(N)


def _check_out(res, tag, N, lw, lme, out, expect_idx, det):
    """Common leaf oracle. Returns the count vector (or None)."""
    w, lognorm, lml = _ref(lw, lme, N)
    ok = True
    if out.n_samples.value != N or np.shape(out.log_weights) != (N,):
        res.violate(PROP, f"{tag}:particle-count", **det)
        return None
    if not np.all(np.asarray(out.log_weights) == 0.0):
        res.violate(PROP, f"{tag}:weights-not-reset", log_weights=np.asarray(out.log_weights), **det)
    src, shapes = _sources(out.traces, N)
    if any(s[0] != N for s in shapes):
        res.violate(PROP, f"{tag}:leaf-shape", shapes=[list(s) for s in shapes], **det)
        return None
    for j, ids in enumerate(src):
        if len(ids) != 1:
            res.violate(PROP, f"{tag}:mixed-sources", lane=j, sources=sorted(ids), **det)
            return None
    idx = [next(iter(s)) for s in src]
    if expect_idx is not None and list(expect_idx) != idx:
        res.violate(PROP, f"{tag}:wrong-ancestor", scripted=list(map(int, expect_idx)), copied_from=idx, **det)
    counts = np.bincount(idx, minlength=N)
    if any(w[i] == 0.0 and counts[i] > 0 for i in range(N)):
        res.violate(PROP, f"{tag}:zero-weight-particle-copied", counts=counts, weights=w, **det)
    got = float(np.asarray(out.log_marginal_likelihood()))
    if not H.close(got, lml, rtol=1e-5, atol=2e-5):
        res.violate(PROP, f"{tag}:estimate-changed", after=got, before=lml, **det)
    dw = np.asarray(out.diagnostic_weights, np.float64)
    if dw.shape != (N,) or not H.close(np.exp(dw), w, rtol=1e-4, atol=1e-6):
        res.violate(PROP, f"{tag}:diagnostic-weights", diagnostic=dw, reference=lognorm, **det)
    return counts


def _explore_collection(res, tier, seed, N, P, lw, lme, label, methods=("categorical", "systematic")):
    import jax
    import jax.numpy as jnp
    from genjax import seed as gseed
    from genjax.inference.smc import resample
    from mc import env, tree, gfi

    key = jax.random.key(seed * 611953 + 17)
    w, lognorm, lml = _ref(lw, lme, N)
    det0 = {"N": N, "log_weights": np.asarray(lw), "collection": label}
    for method in methods:
        fn = _jitted(method)
        det = dict(det0, method=method)
        if method == "categorical":
            exp_copies = np.zeros(N)

            def run(D):
                out, evs = env.run_recorded(fn, key, P, mode="script", decisions=D)
                res.evaluations += 1
                return out, evs

            def menu(ev, lane, ctx):
                if ev.name != "Categorical":
                    raise tree.HarnessError(f"unexpected sampler {ev.name} in categorical resampling")
                return [(np.int32(i), float(w[i]), str(i)) for i in range(N)]

            def on_leaf(leaf):
                res.states += 1
                res.validated += 1
                evs = [e for e in leaf.events]
                if len(evs) != 1 or evs[0].name != "Categorical" or tuple(np.shape(evs[0].value)) != (N,):
                    res.violate(PROP, "categorical:events", events=[e.brief() for e in evs][:3], **det)
                    return
                logits = np.asarray(evs[0].args[0], np.float64)
                with np.errstate(invalid="ignore"):
                    m = np.max(logits[np.isfinite(logits)]) if np.any(np.isfinite(logits)) else 0.0
                    pl = np.exp(logits - m)
                    pl = pl / pl.sum()
                if logits.shape[-1] != N or not H.close(pl, w, rtol=1e-4, atol=1e-6):
                    res.violate(PROP, "categorical:logits-not-the-weights", logits=logits, reference_probs=w, **det)
                idx = np.asarray(evs[0].value).reshape(-1)
                counts = _check_out(res, "categorical", N, lw, lme, leaf.out, idx, dict(det, indices=idx))
                if counts is not None:
                    exp_copies[:] += leaf.prob * counts
                res.case("cat", N, tuple(np.asarray(lw).tolist()), tuple(idx.tolist()), label)
                if res.states % 2001 == 1:
                    res.add_sample(dict(det, indices=idx, counts=counts))

            st = tree.explore(run, menu, on_leaf, check_determinism=False)
            res.transitions += st.nodes
            if abs(st.total_prob - 1) > 1e-6:
                res.violate(PROP, "categorical:tree-mass", total=st.total_prob, **det)
            elif not H.close(exp_copies, N * w, rtol=1e-5, atol=1e-6):
                res.violate(PROP, "categorical:expected-copies", expected_copies=exp_copies, N_times_w=N * w, **det)
        else:
            # analytic breakpoints of u -> ancestor vector
            c = np.cumsum(w)
            bps = sorted({float(N * cj - i) for cj in c for i in range(N) if 1e-9 < N * cj - i < 1 - 1e-9})
            edges = [0.0] + bps + [1.0]
            exp_copies = np.zeros(N)
            covered = 0.0
            for lo, hi in zip(edges[:-1], edges[1:]):
                ln = hi - lo
                if ln < 2e-6:
                    continue  # float32 cumsum cannot resolve it; its mass is below tolerance
                d = min(1e-4, ln / 4)
                counts_mid = None
                for u in (0.5 * (lo + hi), lo + d, hi - d):
                    D = None
                    out, evs = env.run_recorded(fn, key, P, mode="monitor")
                    res.evaluations += 1
                    us = [e for e in evs if e.name == "Uniform"]
                    if len(evs) != 1 or len(us) != 1 or np.shape(us[0].value) != ():
                        res.violate(PROP, "systematic:events", events=[e.brief() for e in evs][:3], **det)
                        break
                    if not (H.close(us[0].args[0], 0.0, atol=0, rtol=0) and H.close(us[0].args[1], 1.0, atol=0, rtol=0)):
                        res.violate(PROP, "systematic:offset-not-uniform01", args=[a.tolist() for a in us[0].args], **det)
                    D = {us[0].key: {0: np.float32(u)}}
                    out, evs = env.run_recorded(fn, key, P, mode="script", decisions=D)
                    res.evaluations += 1
                    res.transitions += 2
                    res.states += 1
                    res.validated += 1
                    counts = _check_out(res, "systematic", N, lw, lme, out, None, dict(det, u=u))
                    if counts is None:
                        continue
                    fl, ce = np.floor(N * w - 1e-5), np.ceil(N * w + 1e-5)
                    if np.any(counts < fl) or np.any(counts > ce):
                        res.violate(PROP, "systematic:floor-ceil", counts=counts, N_times_w=N * w, u=u, **det)
                    if counts_mid is None:
                        counts_mid = counts
                    elif not np.array_equal(counts, counts_mid) and ln > 1e-3:
                        res.violate(PROP, "systematic:not-constant-on-interval", interval=[lo, hi], u=u, counts=counts, counts_mid=counts_mid, **det)
                    res.case("sys", N, tuple(np.asarray(lw).tolist()), round(u, 7), label)
                if counts_mid is not None:
                    exp_copies += ln * counts_mid
                    covered += ln
            if covered > 0.999 and not H.close(exp_copies / covered, N * w, rtol=2e-4, atol=2e-4):
                res.violate(PROP, "systematic:expected-copies", expected_copies=exp_copies, N_times_w=N * w, **det)
            res.notes["systematic_intervals"] = res.notes.get("systematic_intervals", 0) + len(edges) - 1


_JIT = {}


def _jitted(method):
    import jax
    from genjax import seed as gseed
    from genjax.inference.smc import resample

    if method not in _JIT:
        _JIT[method] = jax.jit(gseed(lambda p: resample(p, method=method)))
    return _JIT[method]


def work(item, tier, seed):
    import jax
    import jax.numpy as jnp
    from mc import env

    env.install()
    res = H.Result()
    kind, N, lo, hi = item
    if kind == "hand":
        vecs = weight_vectors(N, tier)[lo:hi]
        for vi, lw in enumerate(vecs):
            # stale diagnostics (reversed, shifted) and a non-zero running estimate
            w, lognorm, _ = _ref(lw, 0.0, N)
            diag = np.where(np.isfinite(lognorm[::-1]), lognorm[::-1] - 0.3, -1.0).astype(np.float32)
            lme = 0.7 if (lo + vi) % 2 == 0 else -1.25
            P = _particles(N, lw, diag, lme)
            _explore_collection(res, tier, seed, N, P, lw, lme, "hand-built, stale diagnostics")
    else:
        _histories(res, tier, seed, N)
    return res


def _histories(res, tier, seed, N):
    """Collections produced by the library itself: init -> resample -> (rejuvenate ->) resample."""
    import jax
    import jax.numpy as jnp
    from genjax import gen, normal, flip, const, sel, seed as gseed
    from genjax.inference import init, resample, rejuvenate, mh
    from mc import env

    @gen
    def model(a):
        x = normal(a, 1.0) @ "x"
        y = normal(x, 0.5) @ "y"
        return x

    key = jax.random.key(seed * 13 + 4)
    P0 = gseed(lambda: init(model, (jnp.float32(0.3),), const(N), {"y": jnp.float32(1.1)}))(key)
    # encode lane ids in the choices so copies are traceable: overwrite leaves but keep weights
    def tag(P):
        import jax

        leaves, tdef = jax.tree_util.tree_flatten(P.traces)
        new = [jnp.asarray(100.0 * (k + 1) + np.arange(N), l.dtype) if np.shape(l)[:1] == (N,) else l for k, l in enumerate(leaves)]
        from genjax.inference.smc import ParticleCollection

        return ParticleCollection(traces=jax.tree_util.tree_unflatten(tdef, new), log_weights=jnp.asarray(P.log_weights), diagnostic_weights=jnp.asarray(P.diagnostic_weights), n_samples=P.n_samples, log_marginal_estimate=jnp.asarray(P.log_marginal_estimate))

    lw0 = np.asarray(P0.log_weights)
    _explore_collection(res, tier, seed, N, tag(P0), lw0, float(np.asarray(P0.log_marginal_estimate)), "init")
    for method in ("categorical", "systematic"):
        P1 = gseed(lambda p: resample(p, method=method))(jax.random.fold_in(key, 1), P0)
        # after a resample the weights are uniform but the cached diagnostics are the old ones
        _explore_collection(res, tier, seed, N, tag(P1), np.asarray(P1.log_weights), float(np.asarray(P1.log_marginal_estimate)), f"init->resample({method})")
        P2 = gseed(lambda p: rejuvenate(p, lambda t: mh(t, sel("x"))))(jax.random.fold_in(key, 2), P1)
        _explore_collection(res, tier, seed, N, tag(P2), np.asarray(P2.log_weights), float(np.asarray(P2.log_marginal_estimate)), f"init->resample({method})->rejuvenate")


def items(tier):
    its = []
    for N in (1, 2, 3) if tier == "quick" else (1, 2, 3, 4):
        n = len(weight_vectors(N, tier))
        step = 12 if N <= 3 else 40
        for lo in range(0, n, step):
            its.append(("hand", N, lo, min(n, lo + step)))
        its.append(("hist", N, 0, 0))
    return its


def main(tier, seed):
    t0 = time.time()
    its = items(tier)
    only = os.environ.get("VERIF_ONLY")
    if only:
        its = [it for it in its if only in str(it)]
    res, errors = H.fan_out("checks.c12", "work", its, tier, seed)
    rule = (
        "all log-weight vectors over {-inf, log1/8, log1/4, log1/2, 0}^N with a finite entry (N<=3 quick, <=4 thorough) + near-uniform, degenerate, "
        "unnormalised vectors; hand-built collections (stale diagnostics, non-zero running estimate) and library-built histories (init, "
        "init->resample, ->rejuvenate); categorical: all ancestor tuples of positive probability; systematic: every interval between analytic "
        "breakpoints (midpoint + 2 near-edges); states = resampled collections checked, transitions = real resample executions"
    )
    return H.finish(PROP, tier, seed, "model_checking", res, errors, t0, rule, ["systematic intervals shorter than 2e-6 (below float32 resolution of the cumulative weights) are skipped; their total mass is below the comparison tolerance"], {"work_items": len(its)})


def replay(path):
    import json

    j = json.load(open(path))
    print(json.dumps(j, indent=1)[:3000])
    return main("quick", int(os.environ.get("VERIF_SEED", "0") or 0))
