"""C17  The ELBO objective is unbiased, tight at the posterior, and ascended by VI.

Targets: conjugate normal-normal models with closed-form posterior and evidence --
x ~ N(mu0, S0), y ~ N(A x, R) observed -- in 1 and 2 dimensions (diagonal and correlated);
families: mean_field_normal_family / full_covariance_normal_family x {reparam, reinforce};
parameter grids incl. the exact posterior.  The objective's internal draw (standard-normal
noise for reparam, the q draw for reinforce) is scripted at the seam over ALL tensor
Gauss-Hermite nodes (exact: every integrand is a polynomial of degree <= 7 in the draw).
Oracle: at the exact posterior, estimate == log p(y) at EVERY node (per-draw identity);
elsewhere sum_nodes w * estimate == closed-form ELBO = log p(y) - KL(q || posterior) <= log p(y);
sum_nodes w * grad_estimate == gradient of the closed-form ELBO (plain jax.grad) for both
estimators; optimize_vi / elbo_vi: for lr in {1e-3, 0.1} and n in {1,2,3,5} every iterate
param_history[k] == params_{k-1} + lr * grad_estimate(params_{k-1}) recomputed outside the
scan with the very noise the scan's iteration drew, final_params == history[-1],
len(history) == n.
"""

from __future__ import annotations

import itertools
import os
import time

import numpy as np

from mc import harness as H

PROP = "C17"


def _targets():
    f = np.float32
    return {
        "d1": dict(mu0=np.asarray([0.3], f), S0=np.asarray([[1.5]], f), A=np.asarray([[1.0]], f), R=np.asarray([[0.5]], f), y=np.asarray([1.1], f)),
        "d2_diag": dict(mu0=np.asarray([0.3, -0.4], f), S0=np.diag([1.5, 0.8]).astype(f), A=np.eye(2, dtype=f), R=np.diag([0.5, 1.2]).astype(f), y=np.asarray([1.1, -0.6], f)),
        "d2_corr": dict(mu0=np.asarray([0.3, -0.4], f), S0=np.asarray([[1.5, 0.4], [0.4, 0.8]], f), A=np.asarray([[1.0, 0.5], [0.0, 1.0]], f), R=np.asarray([[0.5, 0.1], [0.1, 1.2]], f), y=np.asarray([1.1, -0.6], f)),
    }


def _posterior(t):
    mu0, S0, A, R, y = (np.asarray(t[k], np.float64) for k in ("mu0", "S0", "A", "R", "y"))
    S0i, Ri = np.linalg.inv(S0), np.linalg.inv(R)
    Sp = np.linalg.inv(S0i + A.T @ Ri @ A)
    mp = Sp @ (S0i @ mu0 + A.T @ Ri @ y)
    Sy = A @ S0 @ A.T + R
    d = y - A @ mu0
    logz = -0.5 * (d @ np.linalg.solve(Sy, d) + np.linalg.slogdet(2 * np.pi * Sy)[1])
    return mp, Sp, float(logz)


def _model(t):
    import jax.numpy as jnp
    from genjax import gen, multivariate_normal

    mu0, S0, A, R = (jnp.asarray(t[k]) for k in ("mu0", "S0", "A", "R"))

    @gen
    def target():
        x = multivariate_normal(mu0, S0) @ "x"
        y = multivariate_normal(A @ x, R) @ "y"
        return x

    return target


def _elbo_closed(t, family):
    """params -> ELBO in closed form (JAX, differentiable): log p(y) - KL(q || posterior)."""
    import jax.numpy as jnp

    mp, Sp, logz = _posterior(t)
    mp, Sp = jnp.asarray(mp, jnp.float32), jnp.asarray(Sp, jnp.float32)
    n = mp.shape[0]

    def q_of(params):
        if family == "mean_field":
            m = params[:n]
            S = jnp.diag(jnp.exp(params[n:]) ** 2)
        else:
            m = params["mean"]
            S = params["chol_cov"] @ params["chol_cov"].T
        return m, S

    def elbo(params):
        m, S = q_of(params)
        Spi = jnp.linalg.inv(Sp)
        kl = 0.5 * (jnp.trace(Spi @ S) + (mp - m) @ Spi @ (mp - m) - n + jnp.linalg.slogdet(Sp)[1] - jnp.linalg.slogdet(S)[1])
        return logz - kl

    return elbo, q_of


def _param_grid(t, family):
    mp, Sp, _ = _posterior(t)
    n = len(mp)
    f = np.float32
    out = []
    if family == "mean_field":
        diag_post = np.allclose(Sp, np.diag(np.diag(Sp)), atol=1e-9)
        out.append(("posterior" if diag_post else "posterior-marginals", np.concatenate([mp, 0.5 * np.log(np.diag(Sp))]).astype(f), diag_post))
        out.append(("prior", np.concatenate([t["mu0"], 0.5 * np.log(np.diag(t["S0"]))]).astype(f), False))
        out.append(("zero", np.zeros(2 * n, f), False))
        out.append(("narrow", np.concatenate([mp + 0.4, np.full(n, -0.7)]).astype(f), False))
        out.append(("wide", np.concatenate([mp - 0.9, np.full(n, 0.5)]).astype(f), False))
    else:
        Lp = np.linalg.cholesky(Sp)
        out.append(("posterior", {"mean": mp.astype(f), "chol_cov": Lp.astype(f)}, True))
        out.append(("prior", {"mean": np.asarray(t["mu0"], f), "chol_cov": np.linalg.cholesky(np.asarray(t["S0"], np.float64)).astype(f)}, False))
        out.append(("identity", {"mean": np.zeros(n, f), "chol_cov": np.eye(n, dtype=f)}, False))
        L2 = np.eye(n)
        if n > 1:
            L2[1, 0] = 0.6
        out.append(("skewed", {"mean": (mp + 0.5).astype(f), "chol_cov": (0.7 * L2).astype(f)}, False))
        out.append(("wide", {"mean": (mp - 0.8).astype(f), "chol_cov": (1.4 * np.eye(n)).astype(f)}, False))
    return out


def _gh(n_dims, order=4):
    t, w = np.polynomial.hermite.hermgauss(order)
    w = w / np.sqrt(np.pi)
    nodes = []
    for combo in itertools.product(range(order), repeat=n_dims):
        nodes.append((np.sqrt(2.0) * np.asarray([t[i] for i in combo]), float(np.prod([w[i] for i in combo]))))
    return nodes


def _menu_mvn(ev, lane, ctx=None):
    """Tensor Gauss-Hermite nodes for a MultivariateNormal(mean, cov) draw."""
    name = ev.name
    if name not in ("MultivariateNormal", "ADEV:_multivariate_normal_keyful_sample", "ADEV:MultivariateNormalREPARAM"):
        raise KeyError(f"unexpected sampler {name} inside the ELBO")
    mean = np.asarray(ev.args[0], np.float64)
    cov = np.asarray(ev.args[1], np.float64)
    L = np.linalg.cholesky(cov)
    return [((mean + L @ z).astype(np.float32), wgt, f"GH{tuple(np.round(z, 2))}") for z, wgt in _gh(len(mean))]


def work(item, tier, seed):
    import jax
    import jax.numpy as jnp
    from genjax import seed as gseed
    from genjax.core import handler_stack
    from genjax.inference.vi import elbo_factory, elbo_vi, optimize_vi, mean_field_normal_family, full_covariance_normal_family
    from mc import env, tree

    env.install()
    res = H.Result()
    tname, family, est, part = item
    if tname == "hier":
        return _work_hier(res, tier, seed, est)
    t = _targets()[tname]
    n = len(t["mu0"])
    target = _model(t)
    fam = (mean_field_normal_family if family == "mean_field" else full_covariance_normal_family)(n, est)
    cons = {"y": jnp.asarray(t["y"])}
    elbo = elbo_factory(target, fam, cons, ())
    closed, q_of = _elbo_closed(t, family)
    _mp, _Sp, logz = _posterior(t)
    key = jax.random.key(seed * 57 + 9)
    sig0 = f"{tname}:{family}:{est}"
    if part == "objective":
        try:
            jest = jax.jit(gseed(lambda p: elbo.estimate(p)))
            jgrad = jax.jit(gseed(lambda p: elbo.grad_estimate(p)))
        except Exception as ex:
            res.violate(PROP, f"raises:{sig0}", error=str(ex)[:300])
            return res
        for pname, params, is_post in _param_grid(t, family):
            jp = jax.tree_util.tree_map(jnp.asarray, params)
            det = {"target": tname, "family": family, "estimator": est, "params": pname}
            want = float(np.asarray(closed(jp)))
            want_g = jax.tree_util.tree_map(np.asarray, jax.grad(closed)(jp))
            if want > logz + 1e-4:
                raise tree.HarnessError("closed-form ELBO above the evidence: reference is wrong")
            for what, fn in (("estimate", jest), ("grad", jgrad)):
                acc = [None]

                def run(D, fn=fn):
                    out, evs = env.run_recorded(fn, key, jp, mode="script", decisions=D)
                    res.evaluations += 1
                    return out, evs

                def on_leaf(leaf, what=what):
                    res.states += 1
                    res.validated += 1
                    v = jax.tree_util.tree_map(lambda x: np.asarray(x, np.float64) * leaf.prob, leaf.out)
                    acc[0] = v if acc[0] is None else jax.tree_util.tree_map(lambda a, b: a + b, acc[0], v)
                    if len(leaf.events) != 1:
                        res.violate(PROP, f"draw-count:{sig0}:{what}", events=[e.brief() for e in leaf.events][:3], **det)
                    if what == "estimate" and is_post and not H.close(float(np.asarray(leaf.out)), logz, rtol=2e-4, atol=5e-4):
                        res.violate(PROP, f"not-tight-at-the-posterior:{sig0}", estimate=float(np.asarray(leaf.out)), log_evidence=logz, node=leaf.path[-1][2] if leaf.path else None, **det)
                    res.case(sig0, pname, what, tuple(c for _k, _l, c in leaf.path))
                    if not res.samples:
                        res.add_sample(dict(det, method=what, node=str(leaf.path[-1][2]) if leaf.path else None, value=jax.tree_util.tree_map(lambda x: np.asarray(x).tolist(), leaf.out)))

                try:
                    st = tree.explore(run, _menu_mvn, on_leaf, check_determinism=False)
                except Exception as ex:
                    handler_stack.clear()
                    if isinstance(ex, (tree.HarnessError, KeyError)):
                        raise
                    res.violate(PROP, f"raises:{sig0}:{what}", error=f"{type(ex).__name__}: {str(ex)[:300]}", **det)
                    continue
                res.transitions += st.nodes
                if abs(st.total_prob - 1.0) > 1e-6:
                    res.violate(PROP, f"tree-mass:{sig0}:{what}", total=st.total_prob, **det)
                    continue
                if what == "estimate":
                    got = float(acc[0])
                    if not H.close(got, want, rtol=5e-4, atol=1e-3):
                        res.violate(PROP, f"elbo-biased:{sig0}", expectation=got, closed_form=want, **det)
                    if got > logz + 2e-3:
                        res.violate(PROP, f"elbo-above-evidence:{sig0}", expectation=got, log_evidence=logz, **det)
                else:
                    la = [np.asarray(x) for x in jax.tree_util.tree_leaves(acc[0])]
                    lw = [np.asarray(x) for x in jax.tree_util.tree_leaves(want_g)]
                    if len(la) != len(lw) or any(a.shape != b.shape or not H.close(a, b, rtol=2e-3, atol=3e-3) for a, b in zip(la, lw)):
                        res.violate(PROP, f"elbo-gradient-biased:{sig0}", expectation=[a.tolist() for a in la], closed_form=[b.tolist() for b in lw], **det)
        return res
    # ---------------------------------------------------------------- optimisation
    grid = _param_grid(t, family)
    init = jax.tree_util.tree_map(jnp.asarray, grid[2][1])
    if family != "mean_field":
        # optimize_vi adds lr * grad to the parameter pytree: only array parameters are claimed
        res.notes["optimisation_skipped_for_pytree_params"] = 1
        res.states += 1
        res.transitions += 1
        res.add_sample({"target": tname, "family": family, "note": "optimize_vi explored for array-valued parameters (mean-field family)"})
        return res
    for lr in (1e-3, 0.1):
        for n_it in (1, 2, 3, 5) if tier == "thorough" else (1, 3):
            det = {"target": tname, "family": family, "estimator": est, "lr": lr, "n_iterations": n_it}
            for api in ("elbo_vi", "optimize_vi"):
                try:
                    if api == "elbo_vi":
                        f = lambda p: elbo_vi(target, fam, p, cons, (), learning_rate=lr, n_iterations=n_it)
                    else:
                        f = lambda p: optimize_vi(elbo, p, learning_rate=lr, n_iterations=n_it)
                    out, evs = env.run_recorded(gseed(f), key, init, mode="monitor")
                    res.evaluations += 1
                    res.transitions += 1
                except Exception as ex:
                    handler_stack.clear()
                    res.violate(PROP, f"vi-raises:{sig0}:{api}", error=f"{type(ex).__name__}: {str(ex)[:300]}", **det)
                    continue
                hist = np.asarray(out.param_history)
                res.states += 1
                res.validated += 1
                if hist.shape[0] != n_it or out.n_iterations.value != n_it:
                    res.violate(PROP, f"history-length:{sig0}:{api}", length=int(hist.shape[0]), reported=out.n_iterations.value, **det)
                    continue
                if not H.bits_equal(np.asarray(out.final_params), hist[-1]):
                    res.violate(PROP, f"final-params-not-last-iterate:{sig0}:{api}", final=np.asarray(out.final_params), last=hist[-1], **det)
                if len(evs) != n_it:
                    res.violate(PROP, f"vi-draw-count:{sig0}:{api}", draws=len(evs), **det)
                    continue
                # recompute every iterate outside the scan with the iteration's own draw
                p = np.asarray(init)
                g1 = gseed(lambda q: elbo.grad_estimate(q))
                k2 = jax.random.key(4242)
                for k in range(n_it):
                    o0, e0 = env.run_recorded(g1, k2, jnp.asarray(p), mode="monitor")
                    D = {e0[0].key: {0: _same_draw(evs[k], e0[0], p, q_of)}}
                    g, _e = env.run_recorded(g1, k2, jnp.asarray(p), mode="script", decisions=D)
                    res.evaluations += 2
                    res.transitions += 1
                    want = p + np.float32(lr) * np.asarray(g)
                    if not H.close(hist[k], want, rtol=2e-5, atol=2e-6):
                        res.violate(PROP, f"update-rule:{sig0}:{api}", iteration=k, history=hist[k], recomputed=want, previous=p, gradient=np.asarray(g), **det)
                        break
                    p = hist[k]
                res.case(sig0, lr, n_it, api)
                if not res.samples:
                    res.add_sample(dict(det, api=api, history=hist.tolist()))
                # the same run without the history: same draws (same key), so the same final iterate
                try:
                    if api == "elbo_vi":
                        f2 = lambda p: elbo_vi(target, fam, p, cons, (), learning_rate=lr, n_iterations=n_it, track_history=False)
                    else:
                        f2 = lambda p: optimize_vi(elbo, p, learning_rate=lr, n_iterations=n_it, track_history=False)
                    out2, evs2 = env.run_recorded(gseed(f2), key, init, mode="monitor")
                    res.evaluations += 1
                    res.transitions += 1
                except Exception as ex:
                    handler_stack.clear()
                    res.violate(PROP, f"vi-raises:{sig0}:{api}:no-history", error=f"{type(ex).__name__}: {str(ex)[:300]}", **det)
                    continue
                same_draws = len(evs2) == len(evs) and all(H.bits_equal(np.asarray(a.value), np.asarray(b.value)) for a, b in zip(evs, evs2))
                if not same_draws:
                    res.notes["no_history_run_drew_differently"] = res.notes.get("no_history_run_drew_differently", 0) + 1
                elif not H.close(np.asarray(out2.final_params), hist[-1], rtol=2e-6, atol=2e-7):
                    res.violate(PROP, f"final-params-without-history:{sig0}:{api}", final_without_history=np.asarray(out2.final_params), final_with_history=hist[-1], initial=np.asarray(init), **det)
                res.states += 1
                res.validated += 1
    return res


def _work_hier(res, tier, seed, combo):
    """A hierarchical family with TWO sampled sites (score-function after score-function, and
    score-function after reparameterised): the gradient of the later site's parameters and the
    cross terms only appear here.  Target a ~ N(0,1), b ~ N(a,1), y ~ N(b,.5) observed."""
    import jax
    import jax.numpy as jnp
    from genjax import gen, normal, seed as gseed
    from genjax.adev import normal_reinforce, normal_reparam
    from genjax.inference.vi import elbo_factory
    from mc import env, tree
    from checks.c11 import _menu as adev_menu

    env.install()
    first = normal_reinforce if combo[0] == "reinforce" else normal_reparam
    second = normal_reinforce if combo[1] == "reinforce" else normal_reparam

    @gen
    def target():
        a = normal(0.0, 1.0) @ "a"
        b = normal(a, 1.0) @ "b"
        y = normal(b, 0.5) @ "y"
        return y

    @gen
    def family(constraint, params):
        a = first(params[0], jnp.exp(params[1])) @ "a"
        b = second(params[2] * a + params[3], jnp.exp(params[4])) @ "b"
        return b

    yobs = np.float32(0.8)
    elbo = elbo_factory(target, family, {"y": jnp.asarray(yobs)}, ())
    t = dict(mu0=np.zeros(2, np.float32), S0=np.asarray([[1.0, 1.0], [1.0, 2.0]], np.float32), A=np.asarray([[0.0, 1.0]], np.float32), R=np.asarray([[0.25]], np.float32), y=np.asarray([yobs], np.float32))
    mp, Sp, logz = _posterior(t)
    mpj, Spj = jnp.asarray(mp, jnp.float32), jnp.asarray(Sp, jnp.float32)

    def closed(p):
        m1, s1, c, m2, s2 = p[0], jnp.exp(p[1]), p[2], p[3], jnp.exp(p[4])
        m = jnp.stack([m1, c * m1 + m2])
        S = jnp.stack([jnp.stack([s1**2, c * s1**2]), jnp.stack([c * s1**2, c**2 * s1**2 + s2**2])])
        Spi = jnp.linalg.inv(Spj)
        kl = 0.5 * (jnp.trace(Spi @ S) + (mpj - m) @ Spi @ (mpj - m) - 2 + jnp.linalg.slogdet(Spj)[1] - jnp.linalg.slogdet(S)[1])
        return logz - kl

    # exact posterior in this parameterisation: a ~ N(mp0, Sp00), b | a ~ N(mp1 + Sp01/Sp00 (a - mp0), Sp11 - Sp01^2/Sp00)
    cpost = Sp[0, 1] / Sp[0, 0]
    post = np.asarray([mp[0], 0.5 * np.log(Sp[0, 0]), cpost, mp[1] - cpost * mp[0], 0.5 * np.log(Sp[1, 1] - Sp[0, 1] ** 2 / Sp[0, 0])], np.float32)
    grid = [("posterior", post, True), ("off1", np.asarray([0.2, -0.3, 0.5, 0.1, 0.2], np.float32), False), ("off2", np.asarray([-0.4, 0.1, 1.2, -0.3, -0.5], np.float32), False)]
    key = jax.random.key(seed * 57 + 10)
    jest = jax.jit(gseed(lambda p: elbo.estimate(p)))
    jgrad = jax.jit(gseed(lambda p: elbo.grad_estimate(p)))
    sig0 = f"hier:{combo[0]}-then-{combo[1]}"
    for pname, params, is_post in grid:
        jp = jnp.asarray(params)
        det = {"target": "hier", "family": f"{combo[0]}-then-{combo[1]}", "estimator": "mixed", "params": pname}
        want = float(np.asarray(closed(jp)))
        want_g = np.asarray(jax.grad(closed)(jp))
        for what, fn in (("estimate", jest), ("grad", jgrad)):
            acc = [0.0]

            def run(D, fn=fn):
                out, evs = env.run_recorded(fn, key, jp, mode="script", decisions=D)
                res.evaluations += 1
                return out, evs

            def on_leaf(leaf, what=what):
                res.states += 1
                res.validated += 1
                acc[0] = acc[0] + np.asarray(leaf.out, np.float64) * leaf.prob
                if what == "estimate" and is_post and not H.close(float(np.asarray(leaf.out)), logz, rtol=2e-4, atol=1e-3):
                    res.violate(PROP, f"not-tight-at-the-posterior:{sig0}", estimate=float(np.asarray(leaf.out)), log_evidence=logz, **det)
                res.case(sig0, pname, what, tuple(c for _k, _l, c in leaf.path))
                if not res.samples:
                    res.add_sample(dict(det, method=what, value=np.asarray(leaf.out).tolist()))

            st = tree.explore(run, adev_menu, on_leaf, check_determinism=False)
            res.transitions += st.nodes
            if abs(st.total_prob - 1.0) > 1e-5:
                res.violate(PROP, f"tree-mass:{sig0}:{what}", total=st.total_prob, **det)
                continue
            if what == "estimate":
                if not H.close(float(acc[0]), want, rtol=5e-4, atol=1e-3):
                    res.violate(PROP, f"elbo-biased:{sig0}", expectation=float(acc[0]), closed_form=want, **det)
            elif not H.close(acc[0], want_g, rtol=3e-3, atol=3e-3):
                res.violate(PROP, f"elbo-gradient-biased:{sig0}", expectation=np.asarray(acc[0]), closed_form=want_g, **det)
    return res


def _same_draw(ev_scan, ev_hand, p, q_of):
    """The value to script in the hand step so that it consumes the draw the scan iteration
    consumed: reparam -> the same standard-normal noise; reinforce -> the same q sample."""
    return np.asarray(ev_scan.value)


def items(tier):
    its = []
    for tname in ("d1", "d2_diag", "d2_corr"):
        for family in ("mean_field", "full_cov"):
            for est in ("reparam", "reinforce"):
                its.append((tname, family, est, "objective"))
                if family == "mean_field":
                    its.append((tname, family, est, "optimise"))
    for combo in (("reinforce", "reinforce"), ("reparam", "reinforce"), ("reinforce", "reparam"), ("reparam", "reparam")):
        its.append(("hier", "hierarchical", combo, "objective"))
    return its


def main(tier, seed):
    t0 = time.time()
    its = items(tier)
    only = os.environ.get("VERIF_ONLY")
    if only:
        its = [it for it in its if only in str(it)]
    res, errors = H.fan_out("checks.c17", "work", its, tier, seed)
    rule = (
        "3 conjugate targets (1-d, 2-d diagonal, 2-d correlated with a non-square-free observation map) x {mean-field, full-covariance} x {reparam, reinforce} x 5 parameter "
        "points incl. the exact posterior x ALL 4^d tensor Gauss-Hermite nodes of the objective's draw for estimate and grad_estimate; optimisation: lr {1e-3, 0.1} x n "
        "{1,3} quick / {1,2,3,5} thorough x {elbo_vi, optimize_vi}, every iterate recomputed by hand with the iteration's own draw; states = leaves / runs compared"
    )
    return H.finish(PROP, tier, seed, "model_checking", res, errors, t0, rule, ["Gauss-Hermite order 4 per dimension is exact for the degree <= 4 integrands of these Gaussian targets", "optimize_vi is explored for array-valued parameters (it adds lr*grad to the parameter array)"], {"work_items": len(its)})


def replay(path):
    import json

    j = json.load(open(path))
    print(json.dumps(j, indent=1)[:3000])
    d = j["detail"]
    os.environ["VERIF_ONLY"] = f"'{d.get('target')}', '{d.get('family')}', '{d.get('estimator')}'"
    return main("quick", int(os.environ.get("VERIF_SEED", "0") or 0))
