"""C01  assess is the joint log density; simulate samples exactly from it.

For every program x argument of the family (mc/family.py): the *whole choice tree* of
seed(simulate) under scripted randomness (jit; and replayed eagerly, leaf by leaf), every
site answered with every value of its menu (full support for discrete sites, a grid for
continuous ones).  At every leaf: score == -ref.logp, retval == ref.retval, stored args,
real assess / log_density of the leaf's choices == reference, and every sampler event is a
draw the reference expects (right distribution, right parameters given the decided parents,
exactly once).  On the tree: sum of reference probabilities == 1 and, outcome by outcome,
the probability mass reaching a visible outcome == exp(ref.logp(outcome)) (discrete programs).
Plus one unseeded (key-counter) execution per program in monitor mode.
"""

from __future__ import annotations

import os
import time

import numpy as np

from mc import harness as H

PROP = "C01"


def work(item, tier, seed):
    import jax
    import jax.numpy as jnp
    from genjax import seed as gseed
    from genjax.core import handler_stack
    from mc import env, tree, gfi
    from mc import ref as R
    from mc import lang as L
    from mc.family import FAMILY

    env.install()
    res = H.Result()
    pname, ai = item
    prog, argsl, _t = FAMILY[pname]
    args = argsl[ai]
    kwargs = {}
    fn = L.compile_prog(prog)
    key = jax.random.key(seed * 7919 + 11)
    jargs = tuple(jnp.asarray(a) for a in args)

    try:
        sim = jax.jit(gseed(fn.simulate))
        sim(key, *jargs)
    except Exception as ex:
        handler_stack.clear()
        res.violate(PROP, f"simulate-raises:{pname}", program=pname, args=args, error=f"{type(ex).__name__}: {str(ex)[:300]}")
        res.states += 1
        res.transitions += 1
        return res
    assess_ok = True
    try:
        assess = jax.jit(lambda ch, *a: fn.assess(ch, *a))
        logd = jax.jit(lambda ch, *a: fn.log_density(ch, *a))
    except Exception:
        assess_ok = False

    def run(D):
        out, evs = env.run_recorded(sim, key, *jargs, mode="script", decisions=D)
        res.evaluations += 1
        return out, evs

    discrete = all(R.DISTS[s.dist].discrete for s in _all_sites(prog))
    mass = {}
    ref_logp_of = {}
    leaves_for_eager = []
    assess_failed = [False]

    def on_leaf(leaf):
        tr = leaf.out
        det = {"decisions": tree.D_json(leaf.D), "key_seed": seed * 7919 + 11, "config": "jit"}
        ro = gfi.check_coherent(res, PROP, "simulate", pname, prog, args, kwargs, tr, detail=det)
        res.validated += 1
        if ro is None:
            return
        choices = gfi.np_choices(tr)
        # real assess / log_density on the leaf's choices
        if not assess_failed[0]:
            try:
                lp, rv = assess(tr.get_choices(), *jargs)
                res.evaluations += 1
                if not H.close(np.sum(np.asarray(lp)), ro.logp):
                    res.violate(PROP, f"assess-logp:{pname}", assess=np.asarray(lp), reference=ro.logp, program=pname, args=args, choices=R.flatten(choices))
                if np.shape(lp) != ():
                    res.violate(PROP, f"assess-nonscalar:{pname}", shape=list(np.shape(lp)), program=pname, args=args)
                if not gfi.tree_close(R.to_numpy(rv), ro.retval):
                    res.violate(PROP, f"assess-retval:{pname}", retval=R.to_numpy(rv), reference=ro.retval, program=pname, args=args, choices=R.flatten(choices))
                ld = logd(tr.get_choices(), *jargs)
                if not H.close(ld, ro.logp):
                    res.violate(PROP, f"log_density:{pname}", log_density=np.asarray(ld), reference=ro.logp, program=pname, args=args, choices=R.flatten(choices))
            except Exception as ex:
                handler_stack.clear()
                assess_failed[0] = True
                res.violate(PROP, f"assess-raises:{pname}", program=pname, args=args, choices=R.flatten(choices), error=f"{type(ex).__name__}: {str(ex)[:300]}")
        gfi.check_events(res, PROP, "simulate", pname, leaf.events, ro.sites, ro.optional, detail=dict(det, program=pname, args=args, choices=R.flatten(choices)))
        k = gfi.outcome_key(R.flatten(choices))
        mass[k] = mass.get(k, 0.0) + leaf.prob
        ref_logp_of[k] = ro.logp
        res.case(pname, ai, k)
        if len(leaves_for_eager) < (16 if tier == "quick" else 64):
            leaves_for_eager.append((leaf.D, tr))
        if res.states < 2:
            res.add_sample({"program": pname, "args": args, "path": tree.path_json(leaf), "choices": R.flatten(choices), "score": float(np.asarray(tr.get_score())), "ref_logp": ro.logp})
        res.states += 1

    st = tree.explore(run, gfi.std_menu, on_leaf, max_leaves=20000 if tier == "quick" else 200000)
    res.transitions += st.nodes
    res.capped |= st.capped
    res.notes["max_depth"] = st.max_depth
    res.notes["choice_points"] = st.choice_points
    if not st.capped:
        if abs(st.total_prob - 1.0) > 1e-6:
            res.violate(PROP, f"tree-mass:{pname}", total=st.total_prob, program=pname)
        if discrete:
            for k, m in mass.items():
                if not H.close(m, np.exp(ref_logp_of[k]), rtol=1e-4, atol=1e-7):
                    res.violate(PROP, f"outcome-distribution:{pname}", program=pname, args=args, outcome=[(p, np.frombuffer(b, np.uint8).tolist()) for p, b in k], mass=m, reference=float(np.exp(ref_logp_of[k])))
                    break
            res.notes["discrete_outcomes"] = len(mass)
    # eager replay of leaves: same decision table, same observables bit for bit on choices
    esim = gseed(fn.simulate)
    for D, trj in leaves_for_eager[: (4 if tier == "quick" else 16)]:
        try:
            tre, evs = env.run_recorded(esim, key, *jargs, mode="script", decisions=D)
            res.evaluations += 1
            res.transitions += 1
            if not gfi.tree_bits_equal(R.to_numpy(tre.get_choices()), R.to_numpy(trj.get_choices())):
                res.violate(PROP, f"eager-vs-jit-choices:{pname}", program=pname, args=args, decisions=tree.D_json(D))
            gfi.check_coherent(res, PROP, "simulate-eager", pname, prog, args, kwargs, tre, detail={"config": "eager"})
        except Exception as ex:
            handler_stack.clear()
            res.violate(PROP, f"simulate-eager-raises:{pname}", program=pname, args=args, error=f"{type(ex).__name__}: {str(ex)[:300]}")
            break
    # unseeded (global key counter) execution, monitor mode
    try:
        tru, evs = env.run_recorded(fn.simulate, *jargs, mode="monitor")
        res.evaluations += 1
        res.transitions += 1
        ro = gfi.check_coherent(res, PROP, "simulate-unseeded", pname, prog, args, kwargs, tru, detail={"config": "unseeded"})
        if ro is not None:
            gfi.check_events(res, PROP, "simulate-unseeded", pname, evs, ro.sites, ro.optional, detail={"program": pname, "config": "unseeded"})
    except Exception as ex:
        handler_stack.clear()
        # an unseeded Scan compiles its body: refusing with the dedicated error is the
        # documented behaviour (C14), anything else is a failure of simulate
        from genjax.pjax import LoweringSamplePrimitiveToMLIRException

        if not (isinstance(ex, LoweringSamplePrimitiveToMLIRException) and _has_scan(prog)):
            res.violate(PROP, f"simulate-unseeded-raises:{pname}", program=pname, args=args, error=f"{type(ex).__name__}: {str(ex)[:300]}")
    return res


def _has_scan(prog):
    from mc import lang as L

    for st in prog.body:
        if isinstance(st, L.ScanCall):
            return True
        for sub in (getattr(st, "prog", None), getattr(st, "pt", None), getattr(st, "pf", None), getattr(st, "callee", None)):
            if isinstance(sub, L.Prog) and _has_scan(sub):
                return True
    return False


def _all_sites(prog):
    from mc import lang as L
    from mc import ref as R

    out = []
    for st in prog.body:
        if isinstance(st, L.Site):
            out.append(st)
        elif isinstance(st, L.Call):
            out += _all_sites(st.prog)
        elif isinstance(st, L.VmapCall):
            if isinstance(st.callee, str):
                out.append(L.Site(st.addr, st.callee, ()))
            else:
                out += _all_sites(st.callee)
        elif isinstance(st, L.ScanCall):
            out += _all_sites(st.prog)
        elif isinstance(st, L.CondCall):
            out += _all_sites(st.pt) + _all_sites(st.pf)
    return out


def items(tier):
    from mc.family import FAMILY, programs

    its = []
    for pname in programs(tier):
        prog, argsl, _t = FAMILY[pname]
        for ai in range(len(argsl) if tier == "thorough" else 1 if len(argsl) == 1 else len(argsl)):
            its.append((pname, ai))
    return its


def main(tier, seed):
    t0 = time.time()
    its = items(tier)
    only = os.environ.get("VERIF_ONLY")
    if only:
        its = [it for it in its if only in str(it)]
    res, errors = H.fan_out("checks.c01", "work", its, tier, seed)
    rule = (
        "for each (program, args) of mc/family.py: full choice tree of jit(seed(simulate)) under scripted randomness "
        "(menus: flip {F,T}, categorical {0,1,2}, normal {-0.7,0.4,1.3}, exponential {0.2,1.5}, mvn 2 points; lane by lane); "
        "states = leaves (complete executions), transitions = real executions (tree nodes + eager replays + unseeded runs); "
        "a case is distinct by (program, args, visible choice map)"
    )
    assumptions = [
        "continuous sites are answered from a fixed grid: identities are algebraic in the values",
        "that TFP's sampler for (key, params) realises TFP's density is trusted (C13 binds sampler and density to the documented object)",
    ]
    return H.finish(PROP, tier, seed, "model_checking", res, errors, t0, rule, assumptions, {"work_items": len(its)})


def replay(path):
    import json

    j = json.load(open(path))
    print(json.dumps(j, indent=1)[:3000])
    d = j["detail"]
    os.environ["VERIF_ONLY"] = f"'{d.get('program')}'"
    return main("quick", int(os.environ.get("VERIF_SEED", "0") or 0))
