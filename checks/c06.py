"""C06  A seeded function is a pure, transform-stable function of key and arguments.

State explored = the hidden process state a seeded call could depend on: the global key
counter of the unseeded path, the handler stack, the staging caches.
For each of 11 program shapes (flat, sample_shape site, nested scan, cond, vmapped call,
keyword arguments, gen-fn simulate with combinators, gen-fn called directly, ADEV estimate):
 * baseline r0 = seed(f)(key, *args) and its list of site keys (monitor mode);
 * ALL interference histories up to length 2 (quick) / 3 (thorough) over the alphabet
   {unseeded built-in sample, unseeded simulate of another model, seeded run of a different
   function with identical avals, seeded run of the same function with another key, a call
   that raises inside a @gen body, jit of an unrelated function, a modular_vmap call,
   jit(seed(f)) with another key}; after EVERY step seed(f)(key, *args) must be bit-identical
   to r0 with an identical list of site keys;
 * transformations: eager == jit == vmap-over-keys[i] == jit(vmap)[i] on the list of site
   keys and raw draws (bit for bit), discrete outputs bit for bit, floats to 1e-5;
 * repeating a call in the same mode is bit-identical;
 * distinct keys => pairwise distinct continuous draws over a set of 32 / 64 keys.
"""

from __future__ import annotations

import itertools
import os
import time

import numpy as np

from mc import harness as H

PROP = "C06"


def _programs():
    import jax
    import jax.numpy as jnp
    from genjax import normal, flip, uniform, gen, Scan, Cond, const, modular_vmap
    from genjax.adev import expectation, normal_reparam, flip_enum
    from mc import lang as L
    from mc import family as F

    def flat(a):
        x = normal.sample(a, 1.0)
        b = flip.sample(0.4)
        y = normal.sample(x, jnp.where(b, 0.5, 2.0))
        return x, b, y

    def shaped(a):
        return normal.sample(a, 1.0, sample_shape=(3,)), uniform.sample(0.0, 1.0, sample_shape=(2,))

    def nested_scan(a):
        def inner(c, _):
            x = normal.sample(c, 1.0)
            return 0.5 * x, x

        def outer(c, _):
            c2, xs = jax.lax.scan(inner, c, None, length=2)
            z = normal.sample(c2, 1.0)
            return z, (xs, z)

        return jax.lax.scan(outer, a, None, length=2)

    def cond(a):
        b = flip.sample(0.5)
        v = jax.lax.cond(b, lambda: normal.sample(a, 1.0), lambda: normal.sample(-a, 2.0))
        w = normal.sample(v, 1.0)
        return b, v, w

    def vmapped(av):
        return modular_vmap(lambda m: normal.sample(m, 1.0) + normal.sample(0.0, 1.0), in_axes=(0,))(av)

    def kwargs_fn(a, *, scale):
        return normal.sample(a, scale), normal.sample(loc=a, scale=scale)

    def kw_order(a):
        # one distribution under both calling conventions, identical shapes; the keyword names of
        # uniform sort differently (high < low) from its positional order (low, high)
        u1 = uniform.sample(a, a + 2.0)
        u2 = uniform.sample(low=a + 0.5, high=a + 3.0)
        return u1, u2

    fam = L.compile_prog(F.scan_vmap)
    fam2 = L.compile_prog(F.cond_pred)

    def gf_sim(a, xs):
        tr = fam.simulate(a, xs)
        return tr.get_choices(), tr.get_score(), tr.get_retval()

    def gf_call(a):
        # a generative function called directly (GFI.__call__)
        return fam2(a)

    @expectation
    def obj(theta):
        x = normal_reparam(theta, 1.0)
        b = flip_enum(0.3)
        return jnp.where(b, x * x, x)

    def adev(theta):
        return obj.estimate(theta), obj.grad_estimate(theta)

    @jax.custom_jvp
    def noisy_gate(x):
        return x + normal.sample(0.0, 1.0)

    @noisy_gate.defjvp
    def _noisy_gate_jvp(p, t):
        return noisy_gate(p[0]), t[0]

    def custom_jvp_site(a):
        # a construct seed does not interpret: it must either be refused with the dedicated error
        # (then the shape is outside the claim) or behave as a pure function of the key
        return noisy_gate(a) * 2.0

    f32 = np.float32
    return {
        "custom_jvp_site": (custom_jvp_site, (f32(0.3),), {}),
        "kw_order": (kw_order, (f32(0.3),), {}),
        "flat": (flat, (f32(0.3),), {}),
        "shaped": (shaped, (f32(0.3),), {}),
        "nested_scan": (nested_scan, (f32(0.3),), {}),
        "cond": (cond, (f32(0.3),), {}),
        "vmapped": (vmapped, (np.asarray([0.1, 0.7], np.float32),), {}),
        "kwargs": (kwargs_fn, (f32(0.3),), {"scale": f32(0.5)}),
        "gf_simulate": (gf_sim, (f32(0.3), np.asarray([0.5, -0.4], np.float32)), {}),
        "gf_call": (gf_call, (f32(0.3),), {}),
        "adev": (adev, (f32(0.7),), {}),
    }


def _interference(f, args, kw):
    """The alphabet of calls that may disturb hidden state. Each is a thunk; exceptions inside
    are part of the scenario (swallowed here, exactly as a user's except clause would)."""
    import jax
    import jax.numpy as jnp
    from genjax import normal, flip, gen, seed as gseed, modular_vmap
    from genjax.core import handler_stack

    @gen
    def other(a):
        x = normal(a, 1.0) @ "x"
        y = normal(x, 1.0) @ "y"
        return y

    @gen
    def broken(a):
        x = normal(a, 1.0) @ "x"
        raise RuntimeError("user error inside a @gen body")

    @gen
    def collide(a):
        x = normal(a, 1.0) @ "x"
        y = normal(a, 1.0) @ "x"  # address collision -> ValueError
        return y

    jargs = tuple(jnp.asarray(a) for a in args)

    def same_avals(*a, **k):
        # a different function with the very same input avals as f
        leaves = jax.tree_util.tree_leaves((a, k))
        return normal.sample(0.0, 3.0) + sum(jnp.sum(l) for l in leaves)

    def op_unseeded_sample():
        normal.sample(0.0, 1.0)
        flip.sample(0.5)

    def op_uniform_keyword():
        from genjax import uniform

        uniform.sample(low=jnp.float32(0.0), high=jnp.float32(1.0))

    def op_uniform_positional():
        from genjax import uniform

        uniform.sample(jnp.float32(0.0), jnp.float32(1.0))

    def op_uniform_vector():
        from genjax import uniform

        uniform.sample(jnp.zeros(2), jnp.ones(2))

    def op_unseeded_simulate():
        other.simulate(0.0)

    def op_seeded_other_same_avals():
        gseed(same_avals)(jax.random.key(99), *jargs, **kw)

    def op_seeded_same_other_key():
        gseed(f)(jax.random.key(12345), *jargs, **kw)

    def op_raise_in_gen():
        try:
            broken.simulate(0.0)
        except RuntimeError:
            pass

    def op_collision_in_gen():
        try:
            collide.simulate(0.0)
        except ValueError:
            pass

    def op_jit_unrelated():
        jax.jit(lambda x: jnp.sin(x) * 2.0)(jnp.float32(1.0))

    def op_modular_vmap():
        modular_vmap(lambda m: normal.sample(m, 1.0), in_axes=(0,))(jnp.zeros(3))

    def op_jit_seeded_other_key():
        jax.jit(gseed(f))(jax.random.key(777), *jargs, **kw)

    return [
        ("unseeded-sample", op_unseeded_sample),
        ("unseeded-simulate", op_unseeded_simulate),
        ("unseeded-uniform-keyword-call", op_uniform_keyword),
        ("unseeded-uniform-positional-call", op_uniform_positional),
        ("unseeded-uniform-vector-call", op_uniform_vector),
        ("seeded-other-fn-same-avals", op_seeded_other_same_avals),
        ("seeded-same-fn-other-key", op_seeded_same_other_key),
        ("raise-inside-gen-body", op_raise_in_gen),
        ("address-collision-inside-gen-body", op_collision_in_gen),
        ("jit-unrelated", op_jit_unrelated),
        ("modular-vmap-call", op_modular_vmap),
        ("jit-seeded-same-fn-other-key", op_jit_seeded_other_key),
    ]


def _obs(out, evs):
    import jax

    leaves = [np.asarray(l) for l in jax.tree_util.tree_leaves(out)]
    return leaves, [(e.name, e.key, np.asarray(e.real).tobytes()) for e in evs]


def _same_bits(a, b):
    la, ea = a
    lb, eb = b
    if len(la) != len(lb) or any(x.shape != y.shape or x.dtype != y.dtype or x.tobytes() != y.tobytes() for x, y in zip(la, lb)):
        return "outputs differ"
    if sorted(ea) != sorted(eb):
        return "site keys / raw draws differ"
    return None


def work(item, tier, seed):
    import jax
    import jax.numpy as jnp
    from genjax import seed as gseed
    from genjax.core import handler_stack
    from mc import env

    env.install()
    res = H.Result()
    pname, part = item
    f, args, kw = _programs()[pname]
    jargs = tuple(jnp.asarray(a) for a in args)
    key = jax.random.key(seed * 31 + 5)
    sf = gseed(f)

    def call_eager():
        out, evs = env.run_recorded(sf, key, *jargs, mode="monitor", **kw)
        res.evaluations += 1
        res.transitions += 1
        return _obs(out, evs)

    try:
        r0 = call_eager()
    except Exception as ex:
        handler_stack.clear()
        from genjax.pjax import LoweringSamplePrimitiveToMLIRException

        if isinstance(ex, LoweringSamplePrimitiveToMLIRException):
            # seed refuses this program with the dedicated error: not among the functions the
            # seed interpreter accepts, nothing to compare
            res.states += 1
            res.transitions += 1
            res.notes["programs_refused_by_seed"] = [pname]
            res.add_sample({"program": pname, "outcome": "refused by seed with the dedicated lowering error"})
            return res
        res.violate(PROP, f"seeded-call-raises:{pname}", error=f"{type(ex).__name__}: {str(ex)[:300]}")
        return res
    r0b = call_eager()
    res.states += 1
    d = _same_bits(r0, r0b)
    if d:
        res.violate(PROP, f"repeat-not-identical:{pname}", what=d, program=pname)
    if part == "transforms":
        try:
            return _transforms(res, tier, seed, pname, f, jargs, kw, sf, key, r0)
        except Exception as ex:
            from genjax.pjax import LoweringSamplePrimitiveToMLIRException

            handler_stack.clear()
            if isinstance(ex, LoweringSamplePrimitiveToMLIRException):
                # eager seed(f) returned a value, but a transformation of the same seeded function
                # is refused: the eager value came from a site seed did not interpret
                res.violate(PROP, f"eager-accepted-but-transform-refused:{pname}", program=pname)
                res.states += 1
                res.transitions += 1
                return res
            raise
    return _histories(res, tier, seed, pname, f, args, kw, jargs, sf, key, r0, call_eager, part)


def _transforms(res, tier, seed, pname, f, jargs, kw, sf, key, r0):
    import jax
    import jax.numpy as jnp
    from genjax import seed as gseed
    from genjax.core import handler_stack
    from mc import env

    if True:
        # ---- eager == jit == vmap-over-keys == jit(vmap)
        keys = jax.random.split(jax.random.key(seed * 31 + 6), 3)
        base = []
        for i in range(3):
            out, evs = env.run_recorded(sf, keys[i], *jargs, mode="monitor", **kw)
            res.evaluations += 1
            res.transitions += 1
            base.append(_obs(out, evs))
        configs = {
            "jit": lambda k: jax.jit(sf)(k, *jargs, **kw),
        }
        for cname, g in configs.items():
            for i in range(3):
                try:
                    out, evs = env.run_recorded(g, keys[i], mode="monitor")
                except Exception as ex:
                    handler_stack.clear()
                    res.violate(PROP, f"transform-raises:{pname}:{cname}", error=f"{type(ex).__name__}: {str(ex)[:300]}")
                    break
                res.evaluations += 1
                res.transitions += 1
                res.states += 1
                res.validated += 1
                _cmp_transform(res, pname, cname, base[i], _obs(out, evs), i)
        for cname, g in {"vmap": lambda ks: jax.vmap(lambda k: sf(k, *jargs, **kw))(ks), "jit-vmap": lambda ks: jax.jit(jax.vmap(lambda k: sf(k, *jargs, **kw)))(ks)}.items():
            seam = True
            try:
                out, evs = env.run_recorded(g, keys, mode="monitor")
            except NotImplementedError as ex:
                if "IO effect" not in str(ex):
                    raise
                # JAX cannot batch the seam's IO callback through lax.cond: compare outputs only,
                # with the seam switched off at trace time
                seam = False
                try:
                    with env.disabled():
                        sf2 = gseed(lambda *a_, **k_: f(*a_, **k_))  # fresh function: no staged jaxpr with callbacks is reused
                        g2 = (lambda ks: jax.vmap(lambda k: sf2(k, *jargs, **kw))(ks)) if cname == "vmap" else (lambda ks: jax.jit(jax.vmap(lambda k: sf2(k, *jargs, **kw)))(ks))
                        out = g2(keys)
                        evs = []
                    res.notes["vmap_compared_without_seam"] = res.notes.get("vmap_compared_without_seam", 0) + 1
                except Exception as ex2:
                    handler_stack.clear()
                    res.violate(PROP, f"transform-raises:{pname}:{cname}", error=f"{type(ex2).__name__}: {str(ex2)[:300]}")
                    continue
            except Exception as ex:
                handler_stack.clear()
                res.violate(PROP, f"transform-raises:{pname}:{cname}", error=f"{type(ex).__name__}: {str(ex)[:300]}")
                continue
            res.evaluations += 1
            res.transitions += 1
            for i in range(3):
                oi = jax.tree_util.tree_map(lambda x: x[i], out)
                leaves = [np.asarray(l) for l in jax.tree_util.tree_leaves(oi)]
                want_keys = sorted(k for _n, k, _v in base[i][1])
                got = [e for e in evs if e.key in set(want_keys)]
                res.states += 1
                res.validated += 1
                _cmp_transform(res, pname, cname, base[i], (leaves, [(e.name, e.key, np.asarray(e.real).tobytes()) for e in got] if seam else base[i][1]), i)
            allkeys = sorted(e.key for e in evs)
            want_all = sorted(k for b in base for _n, k, _v in b[1])
            if seam and allkeys != want_all:
                res.violate(PROP, f"site-keys-under-vmap:{pname}:{cname}", program=pname, got=len(allkeys), want=len(want_all))
        # ---- distinct keys => distinct continuous draws
        nk = 32 if tier == "quick" else 64
        jf = jax.jit(sf)
        seen = {}
        for i in range(nk):
            out, evs_i = env.run_recorded(jf, jax.random.key(50000 + i), *jargs, mode="monitor", **kw)
            res.evaluations += 1
            res.transitions += 1
            fl = tuple(sorted(np.asarray(e.real).tobytes() for e in evs_i if np.asarray(e.real).dtype.kind == "f"))
            if not fl:
                res.notes["no_continuous_draws"] = res.notes.get("no_continuous_draws", []) + [pname]
                break
            if fl in seen:
                res.violate(PROP, f"distinct-keys-equal-draws:{pname}", key_a=seen[fl], key_b=50000 + i)
                break
            seen[fl] = 50000 + i
        res.case(pname, "transforms")
        res.add_sample({"program": pname, "part": "transforms", "site_keys": [k.hex() for _n, k, _v in r0[1]][:8]})
        return res


def _histories(res, tier, seed, pname, f, args, kw, jargs, sf, key, r0, call_eager, part):
    import jax
    from genjax import seed as gseed
    from genjax.core import handler_stack
    from mc import env

    # ---- interference histories
    ops = _interference(f, args, kw)
    depth = 2 if tier == "quick" else 3
    if tier == "quick" and pname not in ("flat", "cond", "gf_call", "adev", "custom_jvp_site", "kwargs", "kw_order"):
        depth = 1  # quick: length-2 histories for six shapes, length-1 for the others; all at 3 in thorough
    first = int(part)
    n_hist = 0
    for L_ in range(1, depth + 1):
        for hist in itertools.product(range(len(ops)), repeat=L_):
            if hist[0] != first:
                continue
            handler_stack.clear()
            n_hist += 1
            if n_hist % 12 == 0:
                # every history stages fresh executables; a depth-3 item would exhaust the process's memory
                # mappings ("LLVM ERROR: Unable to allocate section memory") without releasing them
                import gc

                jax.clear_caches()
                gc.collect()
            labels = []
            for pos, oi in enumerate(hist):
                label, op = ops[oi]
                labels.append(label)
                try:
                    op()
                    res.transitions += 1
                except Exception as ex:
                    # the interference itself failing is not the subject (e.g. a stale handler
                    # making an *unseeded* call misbehave); the seeded call below is
                    labels[-1] = label + f"[raised {type(ex).__name__}]"
                if pos < len(hist) - 1:
                    # observe only at the END of a history: every shorter history is enumerated on
                    # its own, and the observation itself re-stages f, i.e. disturbs the hidden state
                    continue
                try:
                    r = call_eager()
                    dd = _same_bits(r0, r)
                    if not dd:
                        # the same call through a fresh function object: the staging cache cannot
                        # answer, f's body really runs again in the disturbed process state
                        out2, evs2 = env.run_recorded(gseed(lambda *a_, **k_: f(*a_, **k_)), key, *jargs, mode="monitor", **kw)
                        res.evaluations += 1
                        res.transitions += 1
                        dd = _same_bits(r0, _obs(out2, evs2))
                        if dd:
                            dd += " (re-staged call)"
                except Exception as ex:
                    dd = f"seeded call raised {type(ex).__name__}: {str(ex)[:200]}"
                res.states += 1
                res.validated += 1
                if dd:
                    res.violate(PROP, f"history-dependent:{pname}:{labels[-1].split('[')[0]}", program=pname, history=list(labels), what=dd)
                    break
            res.case(pname, hist)
    handler_stack.clear()
    res.add_sample({"program": pname, "first_interference": ops[first][0], "histories_depth": depth})
    return res


def _cmp_transform(res, pname, cname, a, b, i):
    la, ea = a
    lb, eb = b
    det = {"program": pname, "transform": cname, "key_index": i}
    if len(la) != len(lb):
        res.violate(PROP, f"transform-output-structure:{pname}:{cname}", **det)
        return
    for x, y in zip(la, lb):
        if x.shape != y.shape:
            res.violate(PROP, f"transform-output-shape:{pname}:{cname}", eager=list(x.shape), other=list(y.shape), **det)
            return
        if x.dtype.kind in "biu":
            if x.tobytes() != y.astype(x.dtype).tobytes():
                res.violate(PROP, f"transform-changes-discrete-output:{pname}:{cname}", eager=x, other=y, **det)
                return
        elif not H.close(y, x, rtol=1e-5, atol=1e-6):
            res.violate(PROP, f"transform-changes-output:{pname}:{cname}", eager=x, other=y, **det)
            return
    ka = sorted((n, k) for n, k, _v in ea)
    kb = sorted((n, k) for n, k, _v in eb)
    if ka != kb:
        res.violate(PROP, f"transform-changes-site-keys:{pname}:{cname}", eager=[k.hex() for _n, k in ka][:6], other=[k.hex() for _n, k in kb][:6], **det)
        return
    va = {k: v for _n, k, v in ea}
    for _n, k, v in eb:
        x = np.frombuffer(va[k], np.uint8)
        y = np.frombuffer(v, np.uint8)
        if x.tobytes() != y.tobytes():
            # raw draws: allow last-ulp differences of fused float arithmetic
            xf, yf = np.frombuffer(va[k], np.float32) if len(va[k]) % 4 == 0 else None, np.frombuffer(v, np.float32) if len(v) % 4 == 0 else None
            if xf is None or yf is None or xf.shape != yf.shape or not H.close(yf, xf, rtol=2e-6, atol=2e-7):
                res.violate(PROP, f"transform-changes-raw-draw:{pname}:{cname}", site_key=k.hex(), **det)
                return


def items(tier):
    its = []
    n_ops = 12
    for p in ("custom_jvp_site", "kw_order", "flat", "shaped", "nested_scan", "cond", "vmapped", "kwargs", "gf_simulate", "gf_call", "adev"):
        its.append((p, "transforms"))
        for f in range(n_ops):
            its.append((p, str(f)))
    return its


def main(tier, seed):
    t0 = time.time()
    its = items(tier)
    only = os.environ.get("VERIF_ONLY")
    if only:
        its = [it for it in its if only in str(it)]
    res, errors = H.fan_out("checks.c06", "work", its, tier, seed)
    rule = (
        "11 program shapes x (all interference histories of length <=2 quick / <=3 thorough over a 12-call alphabet, the seeded call re-run and "
        "compared bit for bit after every step) + (eager / jit / vmap-over-keys / jit(vmap) on 3 keys) + (32/64 distinct keys); states = seeded "
        "results compared, transitions = real calls"
    )
    return H.finish(PROP, tier, seed, "model_checking", res, errors, t0, rule, ["eager vs jit floats compared to 1e-5 (fused arithmetic), everything else bit for bit"], {"work_items": len(its)})


def replay(path):
    import json

    j = json.load(open(path))
    print(json.dumps(j, indent=1)[:3000])
    os.environ["VERIF_ONLY"] = f"'{j['detail'].get('program')}'"
    return main("quick", int(os.environ.get("VERIF_SEED", "0") or 0))
