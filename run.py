#!/usr/bin/env python3
"""Entry point: python3 run.py --prop Cxx --tier quick|thorough [--replay file]

Re-executes itself under /venv/bin/python (the interpreter that has /repo installed in
editable mode, i.e. the current working tree) with a pinned hash seed and single-threaded
XLA per worker.  exit 0: property held on everything explored; 1: VIOLATION line(s) printed;
2: the harness itself failed (never reported as a violation).
"""

import argparse
import importlib
import os
import sys

VENV_PY = "/venv/bin/python"
HERE = os.path.dirname(os.path.abspath(__file__))


def _reexec():
    want = {
        "PYTHONHASHSEED": "0",
        "JAX_PLATFORMS": "cpu",
        "FEMTOMC_GENJAX_VERIF": "1",
        "XLA_FLAGS": "--xla_cpu_multi_thread_eigen=false intra_op_parallelism_threads=1",
        "TF_CPP_MIN_LOG_LEVEL": "3",
        "OMP_NUM_THREADS": "1",
        "PYTHONDONTWRITEBYTECODE": "1",
    }
    need = os.path.realpath(sys.executable) != os.path.realpath(VENV_PY) or any(
        os.environ.get(k) != v for k, v in want.items()
    )
    if need and os.environ.get("_VERIF_REEXEC") != "1":
        env = dict(os.environ)
        env.update(want)
        if env.get("VERIF_DEV_SRC"):
            env["PYTHONPATH"] = env["VERIF_DEV_SRC"] + (":" + env["PYTHONPATH"] if env.get("PYTHONPATH") else "")
        env["_VERIF_REEXEC"] = "1"
        os.execve(VENV_PY, [VENV_PY, os.path.abspath(__file__)] + sys.argv[1:], env)


def main():
    _reexec()
    ap = argparse.ArgumentParser()
    ap.add_argument("--prop", required=True)
    ap.add_argument("--tier", default=os.environ.get("VERIF_TIER", "quick"), choices=["quick", "thorough"])
    ap.add_argument("--replay", default=None)
    ap.add_argument("--only", default=None, help="restrict to work items whose id contains this string (debugging)")
    a = ap.parse_args()
    seed = int(os.environ.get("VERIF_SEED", "0") or 0)
    sys.path.insert(0, HERE)
    os.chdir(HERE)
    # genjax must come from /repo's working tree
    import genjax

    src = os.path.realpath(os.path.dirname(genjax.__file__))
    dev = os.environ.get("VERIF_DEV_SRC")  # development only: evaluate a seeded change in a scratch worktree
    if dev and src.startswith(os.path.realpath(dev)):
        print(f"[dev] genjax from {src} (VERIF_DEV_SRC); registered commands never set this")
    elif not src.startswith("/repo/"):
        print(f"HARNESS-ERROR: genjax imported from {src}, expected /repo/src")
        return 2
    mod = importlib.import_module(f"checks.{a.prop.lower()}")
    if a.replay:
        return mod.replay(a.replay)
    if a.only:
        os.environ["VERIF_ONLY"] = a.only
    return mod.main(a.tier, seed)


if __name__ == "__main__":
    sys.exit(main())
